package engine

import (
	v "github.com/els0r/goProbe/v4/zz_verif"
)

type verifLister struct{ ifaces []string }

func (l verifLister) ListInterfaces() ([]string, error) {
	return append([]string(nil), l.ifaces...), nil
}

var verifC16Tokens = []string{"a", "b", "c", "any", "!a", "!b", "!c"}

func verifC16Has(l []string, s string) bool {
	for _, x := range l {
		if x == s {
			return true
		}
	}
	return false
}

// VerifC16_List: for every comma separated list of up to MAXTOK tokens over {a,b,c,any,!a,!b,!c} (with
// repetitions) and every set of existing interfaces the selection is (listed ∩ existing, or all for `any`)
// minus the negated names, and nothing panics.
func VerifC16_List() {
	var existing []string
	if v.Bool() {
		existing = append(existing, "a")
	}
	if v.Bool() {
		existing = append(existing, "b")
	}
	existing = append(existing, "d")
	n := v.Concretize(v.IntIn(1, v.Param("MAXTOK", 3)))
	list := ""
	var pos, neg []string
	anySel := false
	for i := 0; i < n; i++ {
		t := verifC16Tokens[v.Concretize(v.Choice(len(verifC16Tokens)))]
		if i > 0 {
			list += ","
		}
		list += t
		if t[0] == '!' {
			neg = append(neg, t[1:])
		} else {
			pos = append(pos, t)
			if t == "any" {
				anySel = true
			}
		}
	}
	v.Note("list=" + list)
	got, err := parseIfaceListWithCommaSeparatedString(verifLister{existing}, list)
	v.Assert(err == nil, "a list of valid names is accepted")
	v.Reach("parsed")
	// expected set
	var want []string
	for _, e := range existing {
		if (anySel || verifC16Has(pos, e)) && !verifC16Has(neg, e) {
			want = append(want, e)
		}
	}
	for _, g := range got {
		v.Assert(verifC16Has(want, g), "every selected interface is requested, exists and is not negated")
	}
	for _, w := range want {
		v.Assert(verifC16Has(got, w), "every requested existing interface that is not negated is selected")
	}
	for i := range got {
		for j := i + 1; j < len(got); j++ {
			v.Assert(got[i] != got[j], "no interface is selected twice")
		}
	}
}

// VerifC16_Regex: a regular-expression argument selects exactly the matching interfaces.
func VerifC16_Regex() {
	var existing []string
	names := []string{"eth0", "eth1", "wlan0", "lo"}
	for _, nm := range names {
		if v.Bool() {
			existing = append(existing, nm)
		}
	}
	res := []string{"/eth[0-9]/", "/^(eth|wl)/", "/.*/", "/lo$/", "/x/", "/th1/", "/0$/"}
	ri := v.Concretize(v.Choice(len(res)))
	got, err := parseIfaceListWithRegex(verifLister{existing}, res[ri])
	v.Assert(err == nil, "valid regexp accepted")
	v.Reach("regex")
	match := func(s string) bool {
		switch ri {
		case 0:
			return s == "eth0" || s == "eth1"
		case 1:
			return s != "lo"
		case 2:
			return true
		case 3:
			return s == "lo"
		case 5:
			return s == "eth1"
		case 6:
			return s == "eth0" || s == "wlan0"
		}
		return false
	}
	k := 0
	for _, e := range existing {
		if match(e) {
			v.Assert(k < len(got) && got[k] == e, "matching interface selected (in listing order)")
			k++
		}
	}
	v.Assert(k == len(got), "only matching interfaces selected")
}
