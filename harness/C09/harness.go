package node

import (
	"github.com/els0r/goProbe/v4/pkg/types"
	v "github.com/els0r/goProbe/v4/zz_verif"
)

// ---- reference semantics of a leaf on a key -------------------------------------------------------

type verifLeaf struct {
	attr, cmp string
	val       []byte // parsed value bytes as the parser stub returned them (address: 4/16, port: 2, proto: 1)
	valV4     bool   // address family of an address/network value
	mask      int    // prefix length (networks)
}

func verifKeyIsV4(k types.Key) bool { return len(k) == types.KeyWidthIPv4 }

func verifKeySIP(k types.Key) []byte {
	if verifKeyIsV4(k) {
		return k[0:4]
	}
	return k[0:16]
}

func verifKeyDIP(k types.Key) []byte {
	if verifKeyIsV4(k) {
		return k[4:8]
	}
	return k[16:32]
}

func verifKeyDport(k types.Key) uint16 {
	if verifKeyIsV4(k) {
		return uint16(k[8])<<8 | uint16(k[9])
	}
	return uint16(k[32])<<8 | uint16(k[33])
}

func verifKeyProto(k types.Key) byte {
	if verifKeyIsV4(k) {
		return k[10]
	}
	return k[34]
}

// first `mask` bits of a and b are equal (branch-free in mask)
func verifPrefixEq(a, b []byte, mask int) bool {
	ok := true
	for j := 0; j < len(a); j++ {
		bits := min(max(mask-8*j, 0), 8)
		mb := byte(uint16(0xff00) >> uint(bits))
		ok = ok && (a[j]^b[j])&mb == 0
	}
	return ok
}

func verifOrd(cmp string, a, b uint16) bool {
	switch cmp {
	case "=":
		return a == b
	case "!=":
		return a != b
	case "<":
		return a < b
	case ">":
		return a > b
	case "<=":
		return a <= b
	}
	return a >= b
}

// verifRef is the Boolean meaning of the leaf on the key.
func verifRef(l verifLeaf, k types.Key) bool {
	switch l.attr {
	case "sip", "dip":
		ip := verifKeySIP(k)
		if l.attr == "dip" {
			ip = verifKeyDIP(k)
		}
		eq := verifKeyIsV4(k) == l.valV4 && v.EqBytes(ip, l.val)
		return eq == (l.cmp == "=")
	case "snet", "dnet":
		ip := verifKeySIP(k)
		if l.attr == "dnet" {
			ip = verifKeyDIP(k)
		}
		in := verifKeyIsV4(k) == l.valV4 && verifPrefixEq(ip, l.val, l.mask)
		return in == (l.cmp == "=")
	case "dport":
		return verifOrd(l.cmp, verifKeyDport(k), uint16(l.val[0])<<8|uint16(l.val[1]))
	}
	return verifOrd(l.cmp, uint16(verifKeyProto(k)), uint16(l.val[0]))
}

var verifAttrs = []string{"sip", "dip", "snet", "dnet", "dport", "proto"}
var verifCmps = []string{"=", "!=", "<", ">", "<=", ">="}

// verifMakeLeaf builds an instrumented leaf through the real generateCompareValue; the value text is a
// placeholder, the parser stubs return symbolic bytes / numbers. ok=false if the condition is rejected.
func verifMakeLeaf(attr, cmp string, v6 bool) (conditionNode, verifLeaf, bool) {
	text := "A"
	if v6 {
		text = "a::"
	}
	if attr == "snet" || attr == "dnet" {
		text += "/N"
	}
	cn := newConditionNode(attr, cmp, text)
	if err := generateCompareValue(&cn); err != nil {
		return cn, verifLeaf{}, false
	}
	l := verifLeaf{attr: attr, cmp: cmp, valV4: !v6}
	return cn, l, true
}

func verifKey() types.Key {
	if v.Bool() {
		return types.Key(v.Bytes(types.KeyWidthIPv4))
	}
	return types.Key(v.Bytes(types.KeyWidthIPv6))
}

// verifLeafSym builds a leaf whose parsed value is symbolic and known to the harness.
func verifLeafSym(attr, cmp string, v6 bool) (conditionNode, verifLeaf, bool) {
	l := verifLeaf{attr: attr, cmp: cmp, valV4: !v6}
	text := "A"
	switch attr {
	case "sip", "dip", "snet", "dnet":
		n := 4
		if v6 {
			n = 16
			text = "a::"
		}
		l.val = v.Bytes(n)
		v.PushIP(l.val)
		if attr == "snet" || attr == "dnet" {
			text += "/N"
			m := v.I64()
			v.PushNum(m)
			l.mask = int(m)
		}
	case "dport":
		p := v.U16()
		l.val = []byte{byte(p >> 8), byte(p)}
		v.PushNum(int64(p))
	case "proto":
		p := v.U8()
		l.val = []byte{p}
		v.PushNum(int64(p))
	}
	cn := newConditionNode(attr, cmp, text)
	if err := generateCompareValue(&cn); err != nil {
		return cn, l, false
	}
	if attr == "snet" || attr == "dnet" {
		// the value bytes as the documentation reads them: the network address is val masked to mask bits
		// (verifPrefixEq ignores the host bits anyway)
	}
	return cn, l, true
}

// VerifC09_Leaf: every (attribute, comparator) closure agrees with its Boolean meaning on every key, leaves
// the key unchanged and never panics. Prefix lengths are symbolic (every length, including non-multiples
// of eight and out-of-range values, which must be rejected or handled).
func VerifC09_Leaf() {
	attr := verifAttrs[v.Concretize(v.Choice(len(verifAttrs)))]
	cmp := verifCmps[v.Concretize(v.Choice(len(verifCmps)))]
	v6 := v.Bool()
	cn, l, ok := verifLeafSym(attr, cmp, v6)
	if !ok {
		v.Reach("rejected")
		// address and network attributes admit = and != only; dport/proto admit all six
		isAddr := attr != "dport" && attr != "proto"
		maxMask := 32
		if v6 {
			maxMask = 128
		}
		validMask := (attr != "snet" && attr != "dnet") || (l.mask >= 0 && l.mask <= maxMask)
		v.Assert((isAddr && cmp != "=" && cmp != "!=") || !validMask, "a well-formed comparison is not rejected")
		return
	}
	if attr == "snet" || attr == "dnet" {
		maxMask := 32
		if v6 {
			maxMask = 128
		}
		v.Assert(l.mask >= 0 && l.mask <= maxMask, "a prefix length outside the address width is rejected")
	}
	k := verifKey()
	orig := make([]byte, len(k))
	copy(orig, k)
	got := cn.Evaluate(k)
	v.Reach("evaluated")
	v.Assert(got == verifRef(l, types.Key(orig)), "comparison result equals its Boolean meaning")
	v.Assert(v.EqBytes(k, orig), "evaluation leaves the flow key unchanged")
}

// ---- trees ---------------------------------------------------------------------------------------

type verifTree struct {
	op   byte // 'L' leaf, '!' not, '&' and, '|' or
	l, r *verifTree
	leaf verifLeaf // for 'L': attribute may be sugar (host, net, src, dst, port, protocol)
}

// logic harness: cheap numeric leaves with all six comparators (negation normal form flips them)
var verifKindsNum = [][2]string{{"dport", "<"}, {"proto", "!="}, {"port", ">="}, {"protocol", ">"}, {"dport", "="}, {"proto", "<="}, {"port", "!="}, {"ipproto", "<"}, {"dport", ">"}, {"proto", "="}, {"dport", "<="}, {"proto", ">="}}

// sugar harness: address leaves including the sugared forms
var verifKindsAddr = [][2]string{{"host", "="}, {"net", "!="}, {"src", "="}, {"dnet", "="}, {"host", "!="}, {"dst", "!="}, {"net", "="}, {"snet", "!="}, {"sip", "!="}, {"dip", "="}}

var verifKinds = verifKindsNum

var verifLeafCount int

// verifGenLeaf creates the raw (sugared, uninstrumented) leaf and its reference, queueing the parser
// results in the order instrument() will consume them.
func verifGenLeaf(variant int) (Node, *verifTree) {
	kind := verifKinds[(verifLeafCount*5+variant)%len(verifKinds)]
	if v.Param("ADDR", 0) == 1 && verifLeafCount%2 == 1 {
		kind = verifKindsNum[(verifLeafCount+variant)%len(verifKindsNum)] // every second leaf is numeric
	}
	verifLeafCount++
	attr, cmp := kind[0], kind[1]
	v6 := v.Bool()
	l := verifLeaf{attr: attr, cmp: cmp, valV4: !v6}
	text := "A"
	switch attr {
	case "sip", "dip", "src", "dst", "host", "snet", "dnet", "net":
		n := 4
		maxMask := int64(32)
		if v6 {
			n, maxMask = 16, 128
			text = "a::"
		}
		l.val = v.Bytes(n)
		copies := 1
		if attr == "host" || attr == "net" {
			copies = 2 // desugared into two leaves, each parsing the text
		}
		if attr == "snet" || attr == "dnet" || attr == "net" {
			text += "/N"
			// a few prefix lengths per leaf (all lengths are covered symbolically by VerifC09_Leaf)
			m := int64(v.Concretize(v.OneOf(13, int(maxMask))))
			l.mask = int(m)
			for i := 0; i < copies; i++ {
				v.PushNum(m)
				v.PushIP(l.val)
			}
		} else {
			for i := 0; i < copies; i++ {
				v.PushIP(l.val)
			}
		}
	case "dport", "port":
		p := v.U16()
		l.val = []byte{byte(p >> 8), byte(p)}
		v.PushNum(int64(p))
	default: // proto, protocol
		p := v.U8()
		l.val = []byte{p}
		v.PushNum(int64(p))
	}
	return newConditionNode(attr, cmp, text), &verifTree{op: 'L', leaf: l}
}

func verifGen(depth, variant int) (Node, *verifTree) {
	c := 0
	if depth > 0 {
		c = v.Concretize(v.Choice(4))
	}
	switch c {
	case 1:
		n, t := verifGen(depth-1, variant)
		return notNode{node: n}, &verifTree{op: '!', l: t}
	case 2:
		n1, t1 := verifGen(depth-1, variant)
		n2, t2 := verifGen(depth-1, variant)
		return andNode{left: n1, right: n2}, &verifTree{op: '&', l: t1, r: t2}
	case 3:
		n1, t1 := verifGen(depth-1, variant)
		n2, t2 := verifGen(depth-1, variant)
		return orNode{left: n1, right: n2}, &verifTree{op: '|', l: t1, r: t2}
	}
	return verifGenLeaf(variant)
}

// Boolean reading of the tree, sugar per the documentation
func verifEval(t *verifTree, k types.Key) bool {
	switch t.op {
	case '!':
		return !verifEval(t.l, k)
	case '&':
		a, b := verifEval(t.l, k), verifEval(t.r, k)
		return a && b
	case '|':
		a, b := verifEval(t.l, k), verifEval(t.r, k)
		return a || b
	}
	l := t.leaf
	switch l.attr {
	case "src":
		l.attr = "sip"
	case "dst":
		l.attr = "dip"
	case "port":
		l.attr = "dport"
	case "protocol", "ipproto":
		l.attr = "proto"
	case "host", "net":
		s, d := l, l
		s.attr, d.attr = "sip", "dip"
		if l.attr == "net" {
			s.attr, d.attr = "snet", "dnet"
		}
		s.cmp, d.cmp = "=", "="
		a, b := verifRef(s, k), verifRef(d, k)
		return (a || b) == (l.cmp == "=")
	}
	return verifRef(l, k)
}

// VerifC09_Tree: for every tree shape up to depth D over sugared and plain leaves with symbolic values,
// Evaluate(instrument(nnf(desugar(t)))) equals the Boolean reading of t on every key, and the key is unchanged.
func VerifC09_Tree() {
	verifLeafCount = 0
	verifKinds = verifKindsNum
	if v.Param("ADDR", 0) == 1 {
		verifKinds = verifKindsAddr
	}
	raw, ref := verifGen(v.Param("DEPTH", 2), v.Param("VAR", 0))
	n, err := desugar(raw)
	v.Assert(err == nil, "desugaring a well-formed tree succeeds")
	n, err = negationNormalForm(n)
	v.Assert(err == nil, "negation normal form of a shallow tree succeeds")
	n, err = instrument(n)
	v.Assert(err == nil, "instrumenting well-formed leaves succeeds")
	k := verifKey()
	orig := make([]byte, len(k))
	copy(orig, k)
	got := n.Evaluate(k)
	v.Reach("evaluated")
	v.Assert(got == verifEval(ref, types.Key(orig)), "tree evaluation equals the Boolean formula it denotes")
	v.Assert(v.EqBytes(k, orig), "evaluation leaves the flow key unchanged")
}
