package gpfile

import (
	"github.com/els0r/goProbe/v4/pkg/types"
)

// Hooks used by the stubbed directory reader (C08/C12 checks): NewDirReader returns the harness-provided
// day directory, Open/Close only flip the open flag, ReadBlockAtIndex returns harness-provided column bytes.
var (
	VerifDirs      []*GPDir
	VerifDirTimes  []int64
	VerifReadBlock func(d *GPDir, colIdx types.ColumnIndex, blockIdx int) ([]byte, error)
)

func verifDirFor(timestamp int64) *GPDir {
	for i, t := range VerifDirTimes {
		if t == timestamp {
			return VerifDirs[i]
		}
	}
	panic("verif: no such day directory")
}

// VerifNewDir builds a day directory object holding the given metadata (read mode, closed).
func VerifNewDir(md *Metadata) *GPDir {
	return &GPDir{accessMode: ModeRead, Metadata: md}
}

// VerifNewMetadata exposes newMetadata to harnesses in other packages.
func VerifNewMetadata() *Metadata { return newMetadata() }

// Writer-side hooks (C24 rebuild harness): NewDirWriter returns an empty day object, WriteBlocks is recorded.
// VerifAfterOpen, if set, runs after every NewDirReader call (lets a harness serve different days in turn).
var VerifAfterOpen func()

var VerifWriteBlocks func(d *GPDir, timestamp int64, traffic TrafficMetadata, counters types.Counters, data [types.ColIdxCount][]byte) error

func verifNewWriter() *GPDir {
	return &GPDir{accessMode: ModeWrite, Metadata: newMetadata()}
}
