package node

// Exported constructors for harnesses in other packages (C29, C08): an instrumented leaf built through the
// real generateCompareValue, and the real and/or/not nodes.
func VerifLeaf(attribute, comparator, value string) (Node, error) {
	cn := newConditionNode(attribute, comparator, value)
	if err := generateCompareValue(&cn); err != nil {
		return nil, err
	}
	return cn, nil
}

func VerifAnd(l, r Node) Node { return andNode{left: l, right: r} }
func VerifOr(l, r Node) Node  { return orNode{left: l, right: r} }
func VerifNot(n Node) Node    { return notNode{node: n} }
