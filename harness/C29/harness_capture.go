package capture

import (
	"github.com/els0r/goProbe/v4/pkg/capture/capturetypes"
	"github.com/els0r/goProbe/v4/pkg/types"
	v "github.com/els0r/goProbe/v4/zz_verif"
)

// VerifC29_Aggregate: taking the live snapshot leaves the flow log untouched (every key, every counter, also
// idle flows kept from an earlier interval), so the next write-out emits what it would have emitted; the
// snapshot holds exactly the flows with traffic, with their counters.
func VerifC29_Aggregate() {
	fl := NewFlowLog()
	k4a, k4b := v.Str(capturetypes.EPHashSizeV4), v.Str(capturetypes.EPHashSizeV4)
	k6 := v.Str(capturetypes.EPHashSizeV6)
	v.Assume(k4a != k4b)
	mk := func() *Flow {
		return &Flow{BytesRcvd: v.U64(), BytesSent: v.U64(), PacketsRcvd: v.U64(), PacketsSent: v.U64()}
	}
	f4a, f4b, f6 := mk(), mk(), mk()
	fl.flowMapV4[k4a], fl.flowMapV4[k4b], fl.flowMapV6[k6] = f4a, f4b, f6
	c4a, c4b, c6 := *f4a, *f4b, *f6
	agg := fl.Aggregate()
	v.Reach("aggregated")
	v.Assert(len(fl.flowMapV4) == 2 && len(fl.flowMapV6) == 1, "live snapshot removes no flow")
	v.Assert(fl.flowMapV4[k4a] == f4a && fl.flowMapV4[k4b] == f4b && fl.flowMapV6[k6] == f6, "live snapshot keeps every flow under its key")
	v.Assert(*f4a == c4a && *f4b == c4b && *f6 == c6, "live snapshot changes no counter")
	// content of the snapshot
	active := func(f Flow) bool { return f.PacketsRcvd != 0 || f.PacketsSent != 0 }
	n4 := 0
	for it := agg.PrimaryMap.Iter(); it.Next(); {
		n4++
	}
	// (the two IPv4 flows may share the stored key once the source port is dropped)
	key := func(k string) types.Key {
		kk := types.NewEmptyV4Key()
		kk.PutV4String(k)
		return kk
	}
	same := v.EqBytes(key(k4a), key(k4b))
	want4 := 0
	if active(c4a) {
		want4++
	}
	if active(c4b) && !(same && active(c4a)) {
		want4++
	}
	v.Assert(n4 == want4, "snapshot holds exactly the IPv4 flows with traffic")
	if active(c4a) && !(same && active(c4b)) {
		got, ok := agg.PrimaryMap.Get(key(k4a))
		v.Assert(ok && got == types.Counters(c4a), "snapshot carries the flow's counters")
	}
	n6 := 0
	for it := agg.SecondaryMap.Iter(); it.Next(); {
		n6++
		v.Assert(it.Val() == types.Counters(c6), "snapshot carries the IPv6 flow's counters")
	}
	v.Assert((n6 == 1) == active(c6), "snapshot holds exactly the IPv6 flows with traffic")
}
