package goDB

import (
	"github.com/els0r/goProbe/v4/pkg/goDB/conditions/node"
	"github.com/els0r/goProbe/v4/pkg/types"
	"github.com/els0r/goProbe/v4/pkg/types/hashmap"
	v "github.com/els0r/goProbe/v4/zz_verif"
)

// VerifC29_Filter: the live-query filter returns exactly the in-memory flows the condition selects, with
// unmodified keys and counters, never nil, and leaves its input unchanged.
func VerifC29_Filter() {
	// condition: dport = X | sip = Y with symbolic X, Y (IPv4 address)
	port := v.U16()
	v.SetNum("P", int64(port))
	ip := v.Bytes(4)
	v.SetIP("A", ip)
	l1, err1 := node.VerifLeaf("dport", "=", "P")
	l2, err2 := node.VerifLeaf("sip", "=", "A")
	v.Assert(err1 == nil && err2 == nil, "condition instrumented")
	cond := node.VerifOr(l1, l2)
	q := NewQuery(nil, cond, types.LabelSelector{})

	in := hashmap.NewAggFlowMap()
	type flow struct {
		key []byte
		c   types.Counters
		v4  bool
	}
	var flows []flow
	for i := 0; i < 3; i++ {
		f := flow{v4: i < 2, c: types.Counters{BytesRcvd: v.U64(), BytesSent: v.U64(), PacketsRcvd: v.U64(), PacketsSent: v.U64()}}
		if f.v4 {
			f.key = v.Bytes(types.KeyWidthIPv4)
		} else {
			f.key = v.Bytes(types.KeyWidthIPv6)
		}
		flows = append(flows, f)
	}
	v.Assume(!v.EqBytes(flows[0].key, flows[1].key))
	for _, f := range flows {
		in.SetOrUpdate(f.key, f.v4, f.c.BytesRcvd, f.c.BytesSent, f.c.PacketsRcvd, f.c.PacketsSent)
	}
	out := QueryFilter(q)(in)
	v.Reach("filtered")
	v.Assert(out != nil && out.PrimaryMap != nil && out.SecondaryMap != nil, "the filter returns a map even when nothing matches")
	selected := func(f flow) bool {
		var dport uint16
		var sipEq bool
		if f.v4 {
			dport = uint16(f.key[8])<<8 | uint16(f.key[9])
			sipEq = v.EqBytes(f.key[0:4], ip)
		} else {
			dport = uint16(f.key[32])<<8 | uint16(f.key[33])
		}
		return dport == port || sipEq
	}
	want4, want6 := 0, 0
	for _, f := range flows {
		m := out.SecondaryMap
		if f.v4 {
			m = out.PrimaryMap
		}
		got, ok := m.Get(f.key)
		sel := selected(f)
		v.Assert(ok == sel, "a flow is returned exactly when the condition selects it")
		if sel {
			v.Assert(got == f.c, "returned flows keep their counters")
			if f.v4 {
				want4++
			} else {
				want6++
			}
		}
		// input unchanged
		m2 := in.SecondaryMap
		if f.v4 {
			m2 = in.PrimaryMap
		}
		g2, ok2 := m2.Get(f.key)
		v.Assert(ok2 && g2 == f.c, "the in-memory flows are unchanged by the filter")
	}
	v.Assert(out.PrimaryMap.Len() == want4 && out.SecondaryMap.Len() == want6, "nothing else is returned")
}

// VerifC29_NoCondition: without a condition all live flows are returned.
func VerifC29_NoCondition() {
	q := NewQuery(nil, nil, types.LabelSelector{})
	in := hashmap.NewAggFlowMap()
	in.SetOrUpdate(v.Bytes(types.KeyWidthIPv4), true, v.U64(), v.U64(), v.U64(), v.U64())
	out := QueryFilter(q)(in)
	v.Reach("unfiltered")
	v.Assert(out == in, "without a condition the live flows pass unchanged")
}
