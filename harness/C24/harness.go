package goDB

import (
	"context"
	"time"

	"github.com/els0r/goProbe/v4/pkg/goDB/storage"
	"github.com/els0r/goProbe/v4/pkg/goDB/storage/gpfile"
	"github.com/els0r/goProbe/v4/pkg/types"
	v "github.com/els0r/goProbe/v4/zz_verif"
)

// VerifC24_Plan: the per-day plan equals the documented rule for all sixteen inputs.
func VerifC24_Plan() {
	srcC, hasDst, dstC, ow := v.Bool(), v.Bool(), v.Bool(), v.Bool()
	plan := planDayMerge(dayDescriptor{Complete: srcC}, hasDst, dayDescriptor{Complete: dstC}, ow)
	v.Reach("planned")
	switch {
	case srcC && (!hasDst || ow):
		v.Assert(plan.Action == mergeDayActionCopy, "a complete source day is copied when the destination lacks the day or overwriting is requested")
	case hasDst && srcC && dstC && !ow:
		v.Assert(plan.Action == mergeDayActionSkip, "complete-versus-complete days are kept without overwrite")
	default:
		v.Assert(plan.Action == mergeDayActionRebuild, "otherwise the day is rebuilt block by block")
		v.Assert(plan.UseSource, "a rebuild reads the source day")
		v.Assert(plan.UseDest == hasDst, "a rebuild reads the destination day exactly when it exists")
	}
}

func verifC24Snap(ts int64, tag uint64) blockSnapshot {
	return blockSnapshot{Timestamp: ts, Traffic: gpfile.TrafficMetadata{NumV4Entries: tag}, Counts: types.Counters{BytesRcvd: v.U64()}}
}

// VerifC24_MergeSnapshots: block-level union - timestamps are the sorted union, a conflict is won by the
// destination (the source with overwrite), the conflict counters count exactly the shared timestamps on the
// winning side, and merging the same source again changes nothing.
func VerifC24_MergeSnapshots() {
	ns, nd := v.Concretize(v.IntIn(0, v.Param("N", 2))), v.Concretize(v.IntIn(0, v.Param("N", 2)))
	src, dst := map[int64]blockSnapshot{}, map[int64]blockSnapshot{}
	var sts, dts []int64
	for i := 0; i < ns; i++ {
		t := v.I64()
		for _, o := range sts {
			v.Assume(o != t)
		}
		sts = append(sts, t)
		src[t] = verifC24Snap(t, 1) // tag 1: from the source
	}
	for i := 0; i < nd; i++ {
		t := v.I64()
		for _, o := range dts {
			v.Assume(o != t)
		}
		dts = append(dts, t)
		dst[t] = verifC24Snap(t, 2) // tag 2: from the destination
	}
	ow := v.Bool()
	merged, cd, cs := mergeSnapshots(src, dst, ow)
	v.Reach("merged")
	shared := 0
	for _, s := range sts {
		for _, d := range dts {
			if s == d {
				shared++
			}
		}
	}
	v.Assert(len(merged) == ns+nd-shared, "merged blocks are the union of the timestamps")
	for i := 1; i < len(merged); i++ {
		v.Assert(merged[i-1].Timestamp < merged[i].Timestamp, "merged blocks are in increasing time")
	}
	if ow {
		v.Assert(cs == shared && cd == 0, "with overwrite every shared timestamp is counted as won by the source")
	} else {
		v.Assert(cd == shared && cs == 0, "without overwrite every shared timestamp is counted as won by the destination")
	}
	for _, m := range merged {
		s, inS := src[m.Timestamp]
		d, inD := dst[m.Timestamp]
		v.Assert(inS || inD, "every merged block comes from one of the days")
		switch {
		case inS && inD && ow:
			v.Assert(m.Traffic == s.Traffic && m.Counts == s.Counts, "the source wins a conflict with overwrite")
		case inS && inD:
			v.Assert(m.Traffic == d.Traffic && m.Counts == d.Counts, "the destination wins a conflict")
		case inS:
			v.Assert(m.Counts == s.Counts, "source-only block taken from the source")
		default:
			v.Assert(m.Counts == d.Counts, "destination-only block taken from the destination")
		}
	}
	// merging the same source into the merged day again changes nothing
	again := map[int64]blockSnapshot{}
	for _, m := range merged {
		again[m.Timestamp] = m
	}
	merged2, _, _ := mergeSnapshots(src, again, ow)
	v.Assert(len(merged2) == len(merged), "a second merge of the same source adds no block")
	if len(merged2) == len(merged) {
		for i := range merged {
			v.Assert(merged2[i].Timestamp == merged[i].Timestamp && merged2[i].Traffic == merged[i].Traffic && merged2[i].Counts == merged[i].Counts, "a second merge of the same source changes no block")
		}
	}
}

// VerifC24_Complete: completeness classification of a day from its block times.
func VerifC24_Complete() {
	const day = int64(1700006400)
	n := v.Concretize(v.IntIn(0, 3))
	md := gpfile.VerifNewMetadata()
	prev := day - 1
	var ts []int64
	for i := 0; i < n; i++ {
		t := v.I64()
		v.Assume(t > prev && t < day+gpfile.EpochDay)
		prev = t
		ts = append(ts, t)
		for c := 0; c < int(types.ColIdxCount); c++ {
			md.BlockMetadata[c].AddBlock(t, storage.Block{})
		}
	}
	gpfile.VerifDirs, gpfile.VerifDirTimes = []*gpfile.GPDir{gpfile.VerifNewDir(md)}, []int64{day}
	tolS := v.I64()
	v.Assume(tolS >= 0 && tolS <= 3600)
	got, err := isDayComplete("/db/eth0", dayDescriptor{Timestamp: day}, time.Duration(tolS)*time.Second)
	v.Reach("classified")
	v.Assert(err == nil, "classification of a readable day succeeds")
	if n == 0 {
		v.Assert(!got, "a day without blocks is not complete")
		return
	}
	dur := int64(300)
	if n > 1 {
		dur = ts[n-1] - ts[n-2]
	}
	want := ts[0] <= day+tolS && ts[n-1]+dur >= day+gpfile.EpochDay-1-tolS
	v.Assert(got == want, "a day is complete when its blocks reach both ends of the day within the tolerance")
}

type verifC24Write struct {
	ts      int64
	traffic gpfile.TrafficMetadata
	counts  types.Counters
}

func verifC24Pack8(x uint64) []byte {
	b := make([]byte, 9)
	b[0] = 8
	for k := 0; k < 8; k++ {
		b[1+k] = byte(x >> (8 * k))
	}
	return b
}

// VerifC24_Rebuild: rebuilding a day from a partial source day and a destination day writes the block union
// with the destination winning conflicts (the source with overwrite), whatever the completeness of the
// destination, and reports the conflicts on the winning side.
func VerifC24_Rebuild() {
	const day = int64(1700006400)
	// one block each at a shared timestamp plus one source-only block
	tShared, tSrc := day+300, day+600
	type blk struct {
		ts int64
		br uint64
		n4 uint64
	}
	srcBlocks := []blk{{tShared, v.U64(), 1}, {tSrc, v.U64(), 2}}
	dstBlocks := []blk{{tShared, v.U64(), 3}}
	mk := func(bs []blk) *gpfile.GPDir {
		md := gpfile.VerifNewMetadata()
		for _, b := range bs {
			for c := 0; c < int(types.ColIdxCount); c++ {
				md.BlockMetadata[c].AddBlock(b.ts, storage.Block{Len: 9, RawLen: 9})
			}
			md.BlockTraffic = append(md.BlockTraffic, gpfile.TrafficMetadata{NumV4Entries: b.n4})
		}
		return gpfile.VerifNewDir(md)
	}
	srcDir, dstDir := mk(srcBlocks), mk(dstBlocks)
	// source and destination day live under different interface paths but the same day timestamp: the
	// directory hook is keyed by time, so serve the source first and the destination second
	served := 0
	gpfile.VerifDirs, gpfile.VerifDirTimes = []*gpfile.GPDir{srcDir}, []int64{day}
	gpfile.VerifReadBlock = func(d *gpfile.GPDir, colIdx types.ColumnIndex, blockIdx int) ([]byte, error) {
		bs := srcBlocks
		if d == dstDir {
			bs = dstBlocks
		}
		if colIdx == types.BytesRcvdColIdx {
			return verifC24Pack8(bs[blockIdx].br), nil
		}
		if colIdx.IsCounterCol() {
			return verifC24Pack8(0), nil
		}
		return nil, nil
	}
	_ = served
	var writes []verifC24Write
	gpfile.VerifWriteBlocks = func(d *gpfile.GPDir, ts int64, traffic gpfile.TrafficMetadata, counters types.Counters, data [types.ColIdxCount][]byte) error {
		writes = append(writes, verifC24Write{ts, traffic, counters})
		return nil
	}
	ow := v.Bool()
	dstComplete := v.Bool()
	plan := dayPlan{Action: mergeDayActionRebuild, UseSource: true, UseDest: true, SourceDay: dayDescriptor{Timestamp: day}, HasDestDay: true,
		DestDay: dayDescriptor{Timestamp: day, Complete: dstComplete}}
	verifC24Dst = dstDir
	gpfile.VerifAfterOpen = func() { gpfile.VerifDirs[0] = dstDir } // first open: source day, second open: destination day
	_, cd, cs, err := rebuildDayToStage(contextBackground(), "/stage", "eth0", "/src/eth0", "/dst/eth0", day, plan, ow)
	v.Reach("rebuilt")
	v.Assert(err == nil, "rebuild succeeds")
	v.Assert(len(writes) == 2, "the rebuilt day holds the union of the blocks")
	if len(writes) == 2 {
		v.Assert(writes[0].ts == tShared && writes[1].ts == tSrc, "blocks are written in increasing time")
		if ow {
			v.Assert(writes[0].counts.BytesRcvd == srcBlocks[0].br && writes[0].traffic.NumV4Entries == 1, "with overwrite the source wins the conflicting block")
			v.Assert(cs == 1 && cd == 0, "the conflict is reported as won by the source")
		} else {
			v.Assert(writes[0].counts.BytesRcvd == dstBlocks[0].br && writes[0].traffic.NumV4Entries == 3, "without overwrite the destination wins the conflicting block")
			v.Assert(cd == 1 && cs == 0, "the conflict is reported as won by the destination")
		}
		v.Assert(writes[1].counts.BytesRcvd == srcBlocks[1].br, "the source-only block is taken from the source")
	}
}

var verifC24Dst *gpfile.GPDir

func contextBackground() context.Context { return context.Background() }

// directory hook for the rebuild harness: the first reader opened for the day is the source, the second the destination
func verifC24NextDir() *gpfile.GPDir {
	d := gpfile.VerifDirs[0]
	if verifC24Dst != nil {
		gpfile.VerifDirs[0] = verifC24Dst
	}
	return d
}
