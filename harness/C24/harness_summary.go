package goDB

import (
	"context"
	"time"

	v "github.com/els0r/goProbe/v4/zz_verif"
)

// The four steps MergeDatabases drives are kept under their names + "Real" (text rewrite); these wrappers
// run the real ones for the other C24 harnesses and recorders for the summary harness.
var (
	verifC24Summary                             bool
	verifC24Copies, verifC24Rebuilds            int
	verifC24Commits                             int
	verifC24ConflictsDst, verifC24ConflictsSrc int
	verifC24StageDirty                          bool // a staging step found entries in the staging directory it was given
)

func verifC24NoteStage(stageRoot string) {
	if verifC24Copies+verifC24Rebuilds == 0 && len(v.ListDir(stageRoot)) > 0 {
		verifC24StageDirty = true
	}
}

func isDayComplete(ifacePath string, d dayDescriptor, tolerance time.Duration) (bool, error) {
	if verifC24Summary {
		return v.Bool(), nil // any completeness verdict per day
	}
	return isDayCompleteReal(ifacePath, d, tolerance)
}

func stageCopyDay(stageRoot, iface string, srcDay dayDescriptor) (string, error) {
	if verifC24Summary {
		verifC24NoteStage(stageRoot)
		verifC24Copies++
		return stageRoot + "/" + iface + "/copy", nil
	}
	return stageCopyDayReal(stageRoot, iface, srcDay)
}

func rebuildDayToStage(ctx context.Context, stageRoot, iface, sourceIfacePath, destinationIfacePath string, dayTimestamp int64, plan dayPlan, overwrite bool) (string, int, int, error) {
	if verifC24Summary {
		verifC24NoteStage(stageRoot)
		verifC24Rebuilds++
		cd, cs := v.IntIn(0, 1000), v.IntIn(0, 1000) // conflicts this day's rebuild resolved either way
		verifC24ConflictsDst += cd
		verifC24ConflictsSrc += cs
		return stageRoot + "/" + iface + "/rebuilt", cd, cs, nil
	}
	return rebuildDayToStageReal(ctx, stageRoot, iface, sourceIfacePath, destinationIfacePath, dayTimestamp, plan, overwrite)
}

func commitStagedDay(stagedDayPath, destinationIfacePath string, dayTimestamp int64, existing *dayDescriptor) error {
	if verifC24Summary {
		verifC24Commits++
		return nil
	}
	return commitStagedDayReal(stagedDayPath, destinationIfacePath, dayTimestamp, existing)
}

// VerifC24_Summary: MergeDatabases over a source with two interfaces of two days each (one interface also in
// the destination), any completeness verdict per day, overwrite and dry-run on or off: every source day is
// accounted for exactly once as copied, rebuilt or skipped; the conflict totals are the sums over all rebuilt
// days; a dry run performs no step; otherwise one commit per copied or rebuilt day; the staging directory is
// gone afterwards.
func VerifC24_Summary() {
	v.ResetTree()
	for _, p := range []string{
		"/src/eth0/2023/11/1700006400_a", "/src/eth0/2023/11/1700092800_a",
		"/src/eth1/2023/11/1700006400_a", "/src/eth1/2023/11/1700092800_a",
		"/dst/eth0/2023/11/1700006400_b", "/dst/eth0/2023/11/1700092800_b",
	} {
		v.Assert(v.MkdirAll(p, 0o755) == nil, "setup")
	}
	verifC24Summary = true
	verifC24Copies, verifC24Rebuilds, verifC24Commits, verifC24ConflictsDst, verifC24ConflictsSrc, verifC24StageDirty = 0, 0, 0, 0, 0, false
	opts := MergeOptions{SourcePath: "/src", DestinationPath: "/dst", Overwrite: v.Bool(), DryRun: v.Bool()}
	sum, err := MergeDatabases(context.Background(), opts)
	verifC24Summary = false
	v.Reach("merged")
	v.Assert(err == nil, "the merge succeeds")
	v.Assert(sum.InterfacesProcessed == 2, "both source interfaces are processed")
	v.Assert(sum.DaysCopied+sum.DaysRebuilt+sum.DaysSkipped == 4, "every source day is copied, rebuilt or skipped - exactly once")
	if opts.DryRun {
		v.Assert(verifC24Copies+verifC24Rebuilds+verifC24Commits == 0, "a dry run performs no step")
		v.Assert(sum.DryRun, "a dry run is reported as such")
	} else {
		v.Assert(sum.DaysCopied == verifC24Copies && sum.DaysRebuilt == verifC24Rebuilds, "the summary counts the days copied and rebuilt")
		v.Assert(verifC24Commits == verifC24Copies+verifC24Rebuilds, "every copied or rebuilt day is committed once")
		v.Assert(sum.ConflictsResolvedByDestination == verifC24ConflictsDst, "conflicts resolved in favour of the destination are totalled over all rebuilt days")
		v.Assert(sum.ConflictsResolvedBySource == verifC24ConflictsSrc, "conflicts resolved in favour of the source are totalled over all rebuilt days")
	}
	for _, e := range v.ListDir("/dst") {
		v.Assert(e.N == "eth0" || e.N == "eth1", "the staging directory is removed when the merge ends")
	}
}
