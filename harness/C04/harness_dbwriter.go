package goDB

import (
	"github.com/els0r/goProbe/v4/pkg/capture/capturetypes"
	"github.com/els0r/goProbe/v4/pkg/goDB/encoder/encoders"
	"github.com/els0r/goProbe/v4/pkg/goDB/storage/gpfile"
	"github.com/els0r/goProbe/v4/pkg/types"
	"github.com/els0r/goProbe/v4/pkg/types/hashmap"
	v "github.com/els0r/goProbe/v4/zz_verif"
)

const (
	verifC04wBase  = "/db/eth0"
	verifC04wMonth = "/db/eth0/2023/11"
	verifC04wDay   = int64(1700006400)
)

// the flows of write-out k: one IPv4 and one IPv6 flow with counters depending on k (concrete: the totals end
// up in the directory name; the symbolic payload bytes are the gpfile-level harness's job)
func verifC04wFlows(k int) *hashmap.AggFlowMap {
	m := hashmap.NewAggFlowMap()
	k4 := types.NewV4KeyStatic([4]byte{10, 0, 0, byte(k + 1)}, [4]byte{10, 0, 1, 1}, []byte{0, 80}, 6)
	v.SetHash(k4, uint64(2*k+1)) // the hash function is irrelevant here: fixed values instead of symbolic ones
	m.PrimaryMap.SetOrUpdate(k4, uint64(100+k), uint64(200+k), uint64(1+k), uint64(2+k))
	sip := make([]byte, 16)
	dip := make([]byte, 16)
	sip[0], sip[15], dip[0], dip[15] = 0x20, byte(k+1), 0x20, 9
	k6 := types.NewKey(sip, dip, []byte{1, 187}, 17)
	v.SetHash(k6, uint64(2*k+2))
	m.SecondaryMap.SetOrUpdate(k6, uint64(1000+k), uint64(2000+k), uint64(10+k), uint64(20+k))
	return m
}

func verifC04wCrashable(f func()) (crashed bool) {
	defer func() {
		if r := recover(); r != nil {
			if _, ok := r.(v.Crash); ok {
				crashed = true
				return
			}
			panic(r)
		}
	}()
	f()
	return false
}

// reads the day back as a query does; returns the number of blocks (-1: day not listed), checking every
// column of every block against what dbData produces for the flows of that write-out
func verifC04wReadBack(nWant int, minBlocks int) int {
	nDays, suffix := 0, ""
	for _, e := range v.ListDir(verifC04wMonth) {
		ts, sfx, err := gpfile.ExtractTimestampMetadataSuffix(e.N)
		v.Assert(err == nil && e.Dir, "the month directory holds nothing but day directories")
		if ts == verifC04wDay {
			nDays++
			suffix = sfx
		}
	}
	v.Assert(nDays <= 1, "a day is listed once")
	if nDays == 0 {
		v.Assert(minBlocks == 0, "a day with committed write-outs is listed")
		return -1
	}
	r := gpfile.NewDirReader(verifC04wBase, verifC04wDay, suffix)
	err := r.Open()
	if minBlocks == 0 && !v.Exists(r.Path()+"/.blockmeta") {
		return -1 // the recorded first-write-out history (asserted by the gpfile-level harness)
	}
	v.Assert(err == nil, "a listed day opens for reading")
	n := r.NBlocks()
	v.Assert(n >= minBlocks && n <= nWant, "the day holds the blocks of the completed write-outs (and at most the interrupted one)")
	for i := 0; i < n; i++ {
		want, upd := dbData(verifC04wFlows(i))
		for c := types.ColumnIndex(0); c < types.ColIdxCount; c++ {
			got, err := r.ReadBlockAtIndex(c, i)
			v.Assert(err == nil, "a committed block is readable")
			v.Assert(v.EqBytes(got, want[c]), "a committed block reads back as written")
		}
		v.Assert(r.BlockTraffic[i].NumV4Entries == upd.Traffic.NumV4Entries && r.BlockTraffic[i].NumV6Entries == upd.Traffic.NumV6Entries && r.BlockTraffic[i].NumDrops == uint64(7+i), "a committed block keeps its summary")
		v.Assert(r.BlockMetadata[0].BlockList[i].Timestamp == verifC04wDay+int64(300*(i+1)), "a committed block keeps its timestamp")
	}
	v.Assert(r.Close() == nil, "closing a reader succeeds")
	return n
}

// VerifC04_DBWriter: the same kill-point / fault-point scenario as VerifC04_Crash, driven through the real
// DBWriter.Write (flow map -> columns -> day directory): after a disturbed write-out the day holds exactly
// the completed write-outs, readable as written, and the next write-out succeeds.
func VerifC04_DBWriter() {
	v.ResetTree()
	fault := v.Param("FAULT", 0) == 1
	nBefore := v.Param("BEFORE", 1)
	w := NewDBWriter("/db", "eth0", encoders.EncoderTypeNull)
	write := func(k int) error {
		return w.Write(verifC04wFlows(k), capturetypes.CaptureStats{Dropped: uint64(7 + k)}, verifC04wDay+int64(300*(k+1)))
	}
	for k := 0; k < nBefore; k++ {
		v.Assert(write(k) == nil, "an undisturbed write-out succeeds")
	}
	var err error
	if fault {
		v.ArmFault()
	} else {
		v.ArmCrash()
	}
	crashed := verifC04wCrashable(func() { err = write(nBefore) })
	v.Disarm()
	v.Revive()
	v.Reach("disturbed or not")
	n := verifC04wReadBack(nBefore+1, nBefore)
	if !crashed && err == nil {
		v.Assert(n == nBefore+1, "a write-out that reported success is stored")
	}
	if n == nBefore+1 {
		// the interrupted write-out turned out complete: the next one is number nBefore+1
		v.Assert(write(nBefore+1) == nil, "the next write-out to the same day succeeds")
		v.Assert(verifC04wReadBack(nBefore+2, nBefore+2) == nBefore+2, "the next write-out is stored after everything committed before")
		return
	}
	// otherwise the next write-out carries the same flows again under the same timestamp
	v.Assert(write(nBefore) == nil, "the next write-out to the same day succeeds")
	v.Assert(verifC04wReadBack(nBefore+1, nBefore+1) == nBefore+1, "the next write-out is stored after everything committed before")
}
