package gpfile

import (
	"github.com/els0r/goProbe/v4/pkg/goDB/encoder/encoders"
	"github.com/els0r/goProbe/v4/pkg/types"
	v "github.com/els0r/goProbe/v4/zz_verif"
)

const (
	verifC04Base  = "/db/eth0"
	verifC04Month = "/db/eth0/2023/11"
	verifC04Day   = int64(1700006400)
)

// histories recorded (not asserted on the spot) so that the rest of the scenario - the repairing next
// write-out - is still checked on those paths; asserted at the end of the harness
var verifC04NoMeta, verifC04StaleName bool

// payload shortening of the blocks built next (a block shorter than what an interrupted write-out left
// behind in the column files exercises the committed-offset bookkeeping)
var verifC04Shrink int

type verifC04Blk struct {
	ts      int64
	data    [types.ColIdxCount][]byte
	traffic TrafficMetadata
	counts  types.Counters
}

// one write-out exactly as DBWriter.Write performs it: new writer object, Open, WriteBlocks, Close
func verifC04WriteOut(b verifC04Blk) error {
	dir := NewDirWriter(verifC04Base, b.ts, WithPermissions(0644), WithEncoderTypeLevel(encoders.EncoderTypeNull, 0))
	if err := dir.Open(); err != nil {
		return err
	}
	if err := dir.WriteBlocks(b.ts, b.traffic, b.counts, b.data); err != nil {
		return err
	}
	return dir.Close()
}

// a block with symbolic payload in two columns and concrete, per-block distinct summaries (they end up in
// the directory name, which the model file system keys on)
func verifC04Block(k int) verifC04Blk { return verifC04BlockOn(verifC04Day, k) }

func verifC04BlockOn(day int64, k int) verifC04Blk {
	b := verifC04Blk{ts: day + int64(300*(k+1)),
		traffic: TrafficMetadata{NumV4Entries: uint64(k + 1), NumV6Entries: uint64(10 * (k + 1)), NumDrops: uint64(100 * (k + 1))},
		counts:  types.Counters{BytesRcvd: uint64(1000 + k), BytesSent: uint64(2000 + k), PacketsRcvd: uint64(3 + k), PacketsSent: uint64(4 + k)}}
	n := v.Param("PAYLOAD", 3) - verifC04Shrink
	if n < 1 {
		n = 1
	}
	b.data[types.SIPColIdx] = v.Bytes(n)
	b.data[types.BytesRcvdColIdx] = v.Bytes(n)
	return b
}

func verifC04SumsTo(s Stats, blocks []verifC04Blk) bool {
	var traffic TrafficMetadata
	var counts types.Counters
	for _, b := range blocks {
		traffic = traffic.Add(b.traffic)
		counts.Add(b.counts)
	}
	return s.Traffic == traffic && s.Counts == counts
}

func verifC04Crashable(f func()) (crashed bool) {
	defer func() {
		if r := recover(); r != nil {
			if _, ok := r.(v.Crash); ok {
				crashed = true
				return
			}
			panic(r)
		}
	}()
	f()
	return false
}

// what a query sees: the day directories listed in the month directory, and for the day the blocks a fresh
// reader (opened with the listed name's suffix, as the query work manager does) returns.
// Returns the number of blocks, or -1 if the day does not exist.
func verifC04ReadBack(want []verifC04Blk, minBlocks int) int {
	return verifC04ReadBackOn(verifC04Day, want, minBlocks)
}

func verifC04ReadBackOn(day int64, want []verifC04Blk, minBlocks int) int {
	ents := v.ListDir(verifC04Month)
	nDays := 0
	suffix := ""
	for _, e := range ents {
		ts, sfx, err := ExtractTimestampMetadataSuffix(e.N)
		v.Assert(err == nil && e.Dir, "the month directory holds nothing but day directories")
		if ts == day {
			nDays++
			suffix = sfx
		}
	}
	v.Assert(nDays <= 1, "a day is listed once")
	if nDays == 0 {
		v.Assert(minBlocks == 0, "a day with committed write-outs is listed")
		return -1
	}
	r := NewDirReader(verifC04Base, day, suffix)
	fromName := Stats{}
	if r.Metadata != nil {
		fromName = Stats{Traffic: r.Metadata.Traffic, Counts: r.Metadata.Counts}
	}
	err := r.Open()
	if minBlocks == 0 && !v.Exists(r.Path()+"/"+metadataFileName) {
		// the day's first write-out was interrupted after its directory was created and before its metadata
		// file was put in place
		if err != nil {
			verifC04NoMeta = true
		}
		return -1
	}
	v.Assert(err == nil, "a listed day opens for reading")
	n := r.NBlocks()
	v.Assert(n >= minBlocks && n <= len(want), "the day holds the blocks of the completed write-outs (and at most the interrupted one)")
	var traffic TrafficMetadata
	var counts types.Counters
	for i := 0; i < n; i++ {
		for _, c := range []types.ColumnIndex{types.SIPColIdx, types.BytesRcvdColIdx, types.ProtoColIdx} {
			got, err := r.ReadBlockAtIndex(c, i)
			v.Assert(err == nil, "a committed block is readable")
			v.Assert(v.EqBytes(got, want[i].data[c]), "a committed block reads back as written")
		}
		v.Assert(r.BlockMetadata[0].BlockList[i].Timestamp == want[i].ts, "a committed block keeps its timestamp")
		v.Assert(r.BlockTraffic[i] == want[i].traffic, "a committed block keeps its summary")
		traffic = traffic.Add(want[i].traffic)
		counts.Add(want[i].counts)
	}
	v.Assert(r.Metadata.Traffic == traffic && r.Metadata.Counts == counts, "the day totals are the sums over its blocks")
	if n == minBlocks+1 && n <= len(want) && n > 0 && verifC04SumsTo(fromName, want[:n-1]) {
		// the write-out was interrupted between the two renames of its commit: the metadata file is the new
		// one, the directory still carries the previous summary
		if !(fromName.Traffic == traffic && fromName.Counts == counts) {
			verifC04StaleName = true
		}
	} else {
		v.Assert(fromName.Traffic == traffic && fromName.Counts == counts, "the summary in the directory name (used by metadata-only queries) agrees with the day's blocks")
	}
	v.Assert(r.Close() == nil, "closing a reader succeeds")
	return n
}

// VerifC04_Crash: a write-out killed at any system-call boundary (C05: hit by one failing system call)
// leaves the day with exactly the completed write-outs - optionally plus the interrupted one, complete -,
// every block readable as written, listing and summaries consistent; the next write-out succeeds and is
// read back as well.
func VerifC04_Crash() {
	v.ResetTree()
	verifC04NoMeta, verifC04StaleName = false, false
	fault := v.Param("FAULT", 0) == 1
	nBefore := v.Param("BEFORE", 1)
	var blocks []verifC04Blk
	for k := 0; k < nBefore; k++ {
		b := verifC04Block(k)
		v.Assert(verifC04WriteOut(b) == nil, "an undisturbed write-out succeeds")
		blocks = append(blocks, b)
	}
	// the disturbed write-out
	b := verifC04Block(nBefore)
	var err error
	v.FSPartial = v.Param("PARTIAL", 0) == 1
	if fault {
		v.ArmFault()
	} else {
		v.ArmCrash()
	}
	crashed := verifC04Crashable(func() { err = verifC04WriteOut(b) })
	v.Disarm()
	v.Revive()
	if !crashed && err == nil {
		v.Reach("undisturbed")
	} else {
		v.Reach("disturbed")
	}
	n := verifC04ReadBack(append(append([]verifC04Blk(nil), blocks...), b), nBefore)
	if !crashed && err == nil {
		v.Assert(n == nBefore+1, "a write-out that reported success is stored")
	}
	if fault && err != nil && !verifC04StaleName {
		// (the failing directory rename, after which the block is committed although Close reports the error,
		// is the recorded stale-name history and asserted at the end)
		v.Assert(n == nBefore || (nBefore == 0 && n == -1), "a write-out that reported an error left the committed data as it was")
	}
	if n == nBefore+1 {
		blocks = append(blocks, b)
	}
	// the next write-out to the same day (a shorter block), and one more after it
	verifC04Shrink = 2
	c := verifC04Block(nBefore + 1)
	verifC04Shrink = 0
	v.Assert(verifC04WriteOut(c) == nil, "the next write-out to the same day succeeds")
	blocks = append(blocks, c)
	n2 := verifC04ReadBack(blocks, len(blocks))
	v.Assert(n2 == len(blocks), "the next write-out is stored after everything committed before")
	d := verifC04Block(nBefore + 2)
	v.Assert(verifC04WriteOut(d) == nil, "a further write-out to the same day succeeds")
	blocks = append(blocks, d)
	n3 := verifC04ReadBack(blocks, len(blocks))
	v.Assert(n3 == len(blocks), "a further write-out is stored after everything committed before")
	v.Assert(!verifC04NoMeta, "a day directory left without metadata by an interrupted first write-out opens for reading")
	v.Assert(!verifC04StaleName, "after an interruption between the metadata rename and the directory rename the summary in the directory name agrees with the day's blocks")
}

// VerifC04_OtherDay: a write-out to a new day that is killed (or hit by a failing system call) leaves the
// committed neighbouring day of the same month untouched, and both days are written and read correctly
// afterwards.
func VerifC04_OtherDay() {
	v.ResetTree()
	verifC04NoMeta, verifC04StaleName = false, false
	day2 := verifC04Day + EpochDay
	a := verifC04Block(0)
	v.Assert(verifC04WriteOut(a) == nil, "an undisturbed write-out succeeds")
	b := verifC04BlockOn(day2, 1)
	var err error
	v.FSPartial = v.Param("PARTIAL", 0) == 1
	if v.Param("FAULT", 0) == 1 {
		v.ArmFault()
	} else {
		v.ArmCrash()
	}
	crashed := verifC04Crashable(func() { err = verifC04WriteOut(b) })
	v.Disarm()
	v.Revive()
	v.Reach("disturbed or not")
	v.Assert(verifC04ReadBack([]verifC04Blk{a}, 1) == 1, "the neighbouring day keeps its committed block")
	n := verifC04ReadBackOn(day2, []verifC04Blk{b}, 0)
	if !crashed && err == nil {
		v.Assert(n == 1, "a write-out that reported success is stored")
	}
	var day2Blocks []verifC04Blk
	if n == 1 {
		day2Blocks = append(day2Blocks, b)
	}
	c, d := verifC04Block(2), verifC04BlockOn(day2, 3)
	v.Assert(verifC04WriteOut(c) == nil && verifC04WriteOut(d) == nil, "the next write-outs to both days succeed")
	v.Assert(verifC04ReadBack([]verifC04Blk{a, c}, 2) == 2, "the first day holds its two write-outs")
	day2Blocks = append(day2Blocks, d)
	v.Assert(verifC04ReadBackOn(day2, day2Blocks, len(day2Blocks)) == len(day2Blocks), "the second day holds its write-outs")
	v.Assert(!verifC04NoMeta, "a day directory left without metadata by an interrupted first write-out opens for reading")
	v.Assert(!verifC04StaleName, "after an interruption between the metadata rename and the directory rename the summary in the directory name agrees with the day's blocks")
}
