package capture

import (
	"github.com/els0r/goProbe/v4/pkg/capture/capturetypes"
	"github.com/fako1024/gotools/concurrency"
	v "github.com/els0r/goProbe/v4/zz_verif"
)

// item is one symbolic buffer element.
type verifItem struct {
	hash  []byte
	v4    bool
	typ   byte
	size  uint32
	aux   byte
	errno capturetypes.ParsingErrno
}

func verifC23Item() verifItem {
	var it verifItem
	it.v4 = v.Bool()
	if it.v4 {
		it.hash = v.Bytes(capturetypes.EPHashSizeV4)
	} else {
		it.hash = v.Bytes(capturetypes.EPHashSizeV6)
	}
	it.typ = v.U8()
	it.size = v.U32()
	it.aux = v.U8()
	it.errno = capturetypes.ParsingErrno(int8(v.U8()))
	return it
}

func verifC23State() *LocalBuffer {
	// arbitrary valid state: data of symbolic length, positions inside it, nothing pending
	n := v.Concretize(v.OneOf(48, 64, 96, v.Param("NBIG", 96))) // NBIG: a buffer with room for three IPv6 records (thorough)
	max := v.IntIn(40, 192)
	pool := &LocalBufferPool{MaxBufferSize: max, MemPoolLimitUnique: concurrency.NewMemPoolLimitUnique(1, n)}
	b := &LocalBuffer{data: pool.Get(n), memPool: pool}
	copy(b.data, v.Bytes(n)) // arbitrary stale content
	w := v.IntIn(0, 96)
	v.Assume(w <= n)
	b.writeBufPos = w
	b.readBufPos = w
	return b
}

// verifC23NearEnd moves the (empty) buffer's position to one of a few concrete distances from the
// end of the data slice: the distances around one and two records, where growth and refusal happen.
func verifC23NearEnd(b *LocalBuffer) {
	d := v.Concretize(v.OneOf(0, 1, 20, 21, 22, 23, 42, 44, 45, 46, 47, 48))
	v.Assume(d <= len(b.data))
	b.writeBufPos = len(b.data) - d
	b.readBufPos = b.writeBufPos
}

func verifEqBytes(a, b []byte) bool { return v.EqBytes(a, b) }

func verifC23Check(b *LocalBuffer, it verifItem, what string) {
	h, typ, size, v4, aux, errno, ok := b.Next()
	v.Assert(ok, what+": item present")
	v.Assert(v4 == it.v4, what+": IP version preserved")
	v.Assert(typ == it.typ, what+": packet type preserved")
	v.Assert(aux == it.aux, what+": aux byte preserved")
	v.Assert(errno == it.errno, what+": parse status preserved")
	v.Assert(size == it.size, what+": size preserved")
	v.Assert(verifEqBytes(h, it.hash), what+": flow key preserved")
}

// VerifC23_FIFO: from an arbitrary valid buffer state, K adds followed by K nexts return the items in order.
func VerifC23_FIFO() {
	b := verifC23State()
	k := v.Param("K", 2)
	// room for K items without growing (growth is covered by VerifC23_Grow)
	v.Assume(b.writeBufPos+k*(capturetypes.EPHashSizeV6+8) < len(b.data))
	items := make([]verifItem, 0, 3)
	for i := 0; i < k; i++ {
		it := verifC23Item()
		ok := b.Add(it.hash, it.typ, it.size, it.v4, it.aux, it.errno)
		v.Assume(ok)
		items = append(items, it)
	}
	v.Reach("all-added")
	for i := 0; i < k; i++ {
		verifC23Check(b, items[i], "item")
	}
	_, _, _, _, _, _, ok := b.Next()
	v.Assert(!ok, "buffer empty after K items")
}

// VerifC23_Refuse: Add returns false only at the size limit and then leaves the buffer unchanged.
func VerifC23_Refuse() {
	b := verifC23State()
	verifC23NearEnd(b)
	it0 := verifC23Item()
	ok0 := b.Add(it0.hash, it0.typ, it0.size, it0.v4, it0.aux, it0.errno)
	v.Assume(ok0)
	w, r, n := b.writeBufPos, b.readBufPos, len(b.data)
	it := verifC23Item()
	ok := b.Add(it.hash, it.typ, it.size, it.v4, it.aux, it.errno)
	if !ok {
		v.Reach("refused")
		v.Assert(len(b.data) >= b.memPool.MaxBufferSize, "refused only at the size limit")
		v.Assert(b.writeBufPos == w && b.readBufPos == r && len(b.data) >= n, "refused insert leaves positions unchanged")
		verifC23Check(b, it0, "after refusal")
	} else {
		v.Reach("accepted")
	}
}

// VerifC23_Grow: items added across a buffer growth come back unchanged, and Add never
// writes outside the (grown) buffer. The write position is one of a few concrete offsets
// near the end of the buffer (keeps the array reasoning cheap); contents stay symbolic.
func VerifC23_Grow() {
	b := verifC23State()
	verifC23NearEnd(b)
	it0 := verifC23Item()
	ok0 := b.Add(it0.hash, it0.typ, it0.size, it0.v4, it0.aux, it0.errno)
	v.Assume(ok0)
	n0 := len(b.data)
	it1 := verifC23Item()
	ok1 := b.Add(it1.hash, it1.typ, it1.size, it1.v4, it1.aux, it1.errno)
	v.Assume(ok1)
	if len(b.data) != n0 {
		v.Reach("grown-between-items")
	}
	verifC23Check(b, it0, "first item across growth")
	verifC23Check(b, it1, "second item across growth")
}
