package types

import (
	v "github.com/els0r/goProbe/v4/zz_verif"
)

// VerifC17_Direction: every named direction maps to its name and back to itself (directly and through the
// JSON marshalers); every other integer maps to "unknown" and back to the unknown member.
func VerifC17_Direction() {
	d := Direction(v.IntIn(-3, 9))
	name := d.String()
	back := DirectionFromString(name)
	b, err := d.MarshalJSON()
	v.Assert(err == nil, "marshal succeeds")
	var d2 Direction
	v.Assert(d2.UnmarshalJSON(b) == nil, "unmarshal of marshalled value succeeds")
	if d >= DirectionSum && d <= DirectionBoth {
		v.Reach("named")
		v.Assert(back == d, "named direction maps to its name and back to itself")
		v.Assert(d2 == d, "named direction survives the JSON round trip")
	} else {
		v.Reach("unnamed")
		v.Assert(name == "unknown" && back == DirectionUnknown && d2 == DirectionUnknown, "unnamed integers map to the unknown member")
	}
	// the names are pairwise different (otherwise the inverse cannot exist)
	e := Direction(v.IntIn(1, 4))
	if e != d {
		v.Assert(e.String() != name, "different directions have different names")
	}
}
