package encoders

import (
	v "github.com/els0r/goProbe/v4/zz_verif"
)

// VerifC17_EncoderType: every encoder type maps to its name and back to itself.
func VerifC17_EncoderType() {
	t := Type(v.U8())
	name := t.String()
	if t <= MaxEncoderType {
		v.Reach("named")
		back, err := GetTypeByString(name)
		v.Assert(err == nil && back == t, "encoder type maps to its name and back to itself")
	} else {
		v.Reach("unnamed")
		v.Assert(name == "", "unknown encoder types have no name")
	}
}
