package results

import (
	"net/netip"
	"time"

	v "github.com/els0r/goProbe/v4/zz_verif"
)

// VerifC17_SortOrder: every named sort order maps to its name and back to itself.
func VerifC17_SortOrder() {
	s := SortOrder(v.IntIn(-3, 8))
	name := s.String()
	back := SortOrderFromString(name)
	b, err := s.MarshalJSON()
	v.Assert(err == nil, "marshal succeeds")
	var s2 SortOrder
	v.Assert(s2.UnmarshalJSON(b) == nil, "unmarshal of marshalled value succeeds")
	if s >= SortPackets && s <= SortTime {
		v.Reach("named")
		v.Assert(back == s, "named sort order maps to its name and back to itself")
		v.Assert(s2 == s, "named sort order survives the JSON round trip")
	} else {
		v.Reach("unnamed")
		v.Assert(name == "unknown" && back == SortUnknown && s2 == SortUnknown, "unnamed integers map to the unknown member")
	}
}

// VerifC17_Labels: the auxiliary struct handed to the JSON encoder carries every label unchanged and drops
// exactly the zero time.
func VerifC17_Labels() {
	var l Labels
	sec := v.I64()
	v.Assume(sec > -(1<<40) && sec < 1<<40)
	if v.Bool() {
		l.Timestamp = time.Unix(sec, 0)
	}
	l.Iface, l.Hostname, l.HostID = v.Str(1), v.Str(1), v.Str(1)
	_, err := l.MarshalJSON()
	v.Assert(err == nil, "marshal succeeds")
	aux, ok := v.Captured.(struct {
		Timestamp *time.Time `json:"timestamp,omitempty"`
		Iface     string     `json:"iface,omitempty"`
		Hostname  string     `json:"host,omitempty"`
		HostID    string     `json:"host_id,omitempty"`
	})
	if !ok {
		return // the auxiliary struct changed shape: nothing to say (reported as vacuous)
	}
	v.Reach("captured")
	v.Assert(aux.Iface == l.Iface && aux.Hostname == l.Hostname && aux.HostID == l.HostID, "labels handed to the encoder unchanged")
	v.Assert((aux.Timestamp == nil) == l.Timestamp.IsZero(), "exactly the zero time is dropped")
	if aux.Timestamp != nil {
		v.Assert(aux.Timestamp.Equal(l.Timestamp), "time label handed to the encoder unchanged")
	}
}

// VerifC17_Attributes: addresses, protocol and port reach the encoder unchanged; exactly invalid addresses are dropped.
func VerifC17_Attributes() {
	var a Attributes
	if v.Bool() {
		var b [4]byte
		copy(b[:], v.Bytes(4))
		a.SrcIP = netip.AddrFrom4(b)
	}
	if v.Bool() {
		var b [16]byte
		copy(b[:], v.Bytes(16))
		a.DstIP = netip.AddrFrom16(b)
	}
	if v.Bool() {
		a.SrcIP, a.DstIP = a.DstIP, a.SrcIP
	}
	a.IPProto, a.DstPort = v.U8(), v.U16()
	_, err := a.MarshalJSON()
	v.Assert(err == nil, "marshal succeeds")
	aux, ok := v.Captured.(struct {
		SrcIP   *netip.Addr `json:"sip,omitempty"`
		DstIP   *netip.Addr `json:"dip,omitempty"`
		IPProto uint8       `json:"proto,omitempty"`
		DstPort uint16      `json:"dport,omitempty"`
	})
	if !ok {
		return
	}
	v.Reach("captured")
	v.Assert(aux.IPProto == a.IPProto && aux.DstPort == a.DstPort, "protocol and port handed to the encoder unchanged")
	v.Assert((aux.SrcIP == nil) == !a.SrcIP.IsValid() && (aux.DstIP == nil) == !a.DstIP.IsValid(), "exactly the invalid addresses are dropped")
	if aux.SrcIP != nil {
		v.Assert(*aux.SrcIP == a.SrcIP, "source address handed to the encoder unchanged")
	}
	if aux.DstIP != nil {
		v.Assert(*aux.DstIP == a.DstIP, "destination address handed to the encoder unchanged")
	}
}
