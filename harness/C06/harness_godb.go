package goDB

import (
	"github.com/els0r/goProbe/v4/pkg/goDB/storage"
	"github.com/els0r/goProbe/v4/pkg/goDB/storage/gpfile"
	"github.com/els0r/goProbe/v4/pkg/types"
	"github.com/els0r/goProbe/v4/pkg/types/hashmap"
	"github.com/els0r/goProbe/v4/pkg/types/workload"
	v "github.com/els0r/goProbe/v4/zz_verif"
)

func verifC06Pack8(vals ...uint64) []byte {
	b := make([]byte, 1+8*len(vals))
	b[0] = 8
	for i, x := range vals {
		for k := 0; k < 8; k++ {
			b[1+8*i+k] = byte(x >> (8 * k))
		}
	}
	return b
}

// VerifC06_Blocks: a day with a damaged block (arbitrary column bytes of arbitrary lengths, arbitrary entry
// counts in the metadata, or a column that cannot be read) followed by an intact block: evaluating the day
// never violates a bounds obligation, processes both blocks, counts a skipped block, and still returns
// exactly the intact block's flow.
func VerifC06_Blocks() {
	const day = int64(1700006400)
	t0, t1 := day+300, day+600
	md := gpfile.VerifNewMetadata()
	n4bad := uint64(v.U32()) // arbitrary IPv4 entry count claimed by the damaged block's metadata
	for c := 0; c < int(types.ColIdxCount); c++ {
		md.BlockMetadata[c].AddBlock(t0, storage.Block{Len: 9, RawLen: 9})
		md.BlockMetadata[c].AddBlock(t1, storage.Block{Len: 9, RawLen: 9})
	}
	badIdx := v.Concretize(v.Choice(2)) // the damaged block comes first or last
	goodIdx := 1 - badIdx
	if badIdx == 0 {
		md.BlockTraffic = append(md.BlockTraffic, gpfile.TrafficMetadata{NumV4Entries: n4bad}, gpfile.TrafficMetadata{NumV4Entries: 1})
	} else {
		md.BlockTraffic = append(md.BlockTraffic, gpfile.TrafficMetadata{NumV4Entries: 1}, gpfile.TrafficMetadata{NumV4Entries: n4bad})
	}
	dir := gpfile.VerifNewDir(md)
	gpfile.VerifDirs, gpfile.VerifDirTimes = []*gpfile.GPDir{dir}, []int64{day}
	// damaged block: symbolic bytes of symbolic length per column, or an unreadable column
	maxLen := v.Param("COLLEN", 20)
	// address, port and protocol columns and one counter column are arbitrary; the other counter columns
	// hold one well-formed entry (keeps the number of sanity-check paths manageable)
	var bad [types.ColIdxCount][]byte
	ne := v.Concretize(v.OneOf(1, 3)) // entries in the well-formed counter columns
	for c := range bad {
		if ne == 1 {
			bad[c] = verifC06Pack8(1)
		} else {
			bad[c] = verifC06Pack8(1, 2, 3)
		}
	}
	bad[types.SIPColIdx] = v.Bytes(v.IntIn(0, maxLen))
	bad[types.DIPColIdx] = v.Bytes(v.IntIn(0, maxLen))
	bad[types.DportColIdx] = v.Bytes(v.IntIn(0, 8))
	bad[types.ProtoColIdx] = v.Bytes(v.IntIn(0, 4))
	bad[types.BytesRcvdColIdx] = v.Bytes(v.IntIn(0, 10))
	if v.Bool() {
		bad[types.BytesRcvdColIdx] = verifC06Pack8(4, 5, 6) // a well-formed three-entry counter column
	}
	unreadable := v.Bool()
	// intact block: one IPv4 flow
	sip, dip := v.Bytes(4), v.Bytes(4)
	dport := v.Bytes(2)
	proto := v.U8()
	cnt := types.Counters{BytesRcvd: v.U64(), BytesSent: v.U64(), PacketsRcvd: v.U64(), PacketsSent: v.U64()}
	gpfile.VerifReadBlock = func(d *gpfile.GPDir, colIdx types.ColumnIndex, blockIdx int) ([]byte, error) {
		if blockIdx == badIdx {
			if unreadable && colIdx == types.DportColIdx {
				return nil, v.Err("unexpected amount of bytes after decompression")
			}
			return bad[colIdx], nil
		}
		switch colIdx {
		case types.SIPColIdx:
			return sip, nil
		case types.DIPColIdx:
			return dip, nil
		case types.DportColIdx:
			return dport, nil
		case types.ProtoColIdx:
			return []byte{proto}, nil
		case types.BytesRcvdColIdx:
			return verifC06Pack8(cnt.BytesRcvd), nil
		case types.BytesSentColIdx:
			return verifC06Pack8(cnt.BytesSent), nil
		case types.PacketsRcvdColIdx:
			return verifC06Pack8(cnt.PacketsRcvd), nil
		}
		return verifC06Pack8(cnt.PacketsSent), nil
	}
	attrs := []types.Attribute{types.SIPAttribute{}, types.DIPAttribute{}, types.DportAttribute{}, types.ProtoAttribute{}}
	q := NewQuery(attrs, nil, types.LabelSelector{Timestamp: true})
	w, err := NewDBWorkManager(q, "/db", "eth0", 1)
	v.Assert(err == nil, "work manager created")
	w.tFirstCovered, w.tLastCovered = day, day+86400
	res := hashmap.NewAggFlowMapWithMetadata()
	stats, err := w.readBlocksAndEvaluate(dir, nil, &res)
	v.Reach("evaluated")
	v.Assert(err == nil, "damage inside one block does not fail the day")
	v.Assert(stats.BlocksProcessed == 2, "both blocks processed")
	v.Assert(stats.BlocksCorrupted <= 1, "at most the damaged block is counted as skipped")
	if unreadable {
		v.Assert(stats.BlocksCorrupted == 1, "a block with an unreadable column is counted as skipped")
	}
	if len(bad[types.BytesRcvdColIdx]) == 0 {
		v.Assert(stats.BlocksCorrupted == 1, "a block with an empty counter column is counted as skipped")
	}
	// the intact block's flow is there, exactly
	key := types.NewEmptyV4Key()
	copy(key[0:4], sip)
	copy(key[4:8], dip)
	copy(key[8:10], dport)
	key[10] = proto
	tGood := t0
	if goodIdx == 1 {
		tGood = t1
	}
	got, ok := res.PrimaryMap.Get(key.Extend(tGood))
	v.Assert(ok, "the intact block's flow is returned")
	v.Assert(got == cnt, "with exactly its stored counters")
}

// VerifC06_StatsAdd: query statistics add field by field.
func VerifC06_StatsAdd() {
	mk := func() *workload.Stats {
		return &workload.Stats{BytesLoaded: v.U64(), BytesDecompressed: v.U64(), BlocksProcessed: v.U64(), BlocksCorrupted: v.U64(), DirectoriesProcessed: v.U64(), Workloads: v.U64()}
	}
	a, b := mk(), mk()
	a0 := workload.Stats{BytesLoaded: a.BytesLoaded, BytesDecompressed: a.BytesDecompressed, BlocksProcessed: a.BlocksProcessed, BlocksCorrupted: a.BlocksCorrupted, DirectoriesProcessed: a.DirectoriesProcessed, Workloads: a.Workloads}
	a.Add(b)
	v.Reach("added")
	v.Assert(a.BytesLoaded == a0.BytesLoaded+b.BytesLoaded, "bytes loaded add up")
	v.Assert(a.BytesDecompressed == a0.BytesDecompressed+b.BytesDecompressed, "bytes decompressed add up")
	v.Assert(a.BlocksProcessed == a0.BlocksProcessed+b.BlocksProcessed, "blocks processed add up")
	v.Assert(a.BlocksCorrupted == a0.BlocksCorrupted+b.BlocksCorrupted, "skipped blocks add up")
	v.Assert(a.DirectoriesProcessed == a0.DirectoriesProcessed+b.DirectoriesProcessed, "directories add up")
	v.Assert(a.Workloads == a0.Workloads+b.Workloads, "workloads add up")
}
