package gpfile

import (
	"github.com/els0r/goProbe/v4/pkg/goDB/encoder/encoders"
	"github.com/els0r/goProbe/v4/pkg/goDB/storage"
	v "github.com/els0r/goProbe/v4/zz_verif"
)

// VerifC06_ReadBlock: whatever the block descriptor in the metadata says (offset, stored length, raw length,
// encoder byte) and whatever the column file holds, reading the block returns data of the announced length
// or an error - it never violates a bounds / allocation obligation.
func VerifC06_ReadBlock() {
	name := "/db/eth0/2023/11/1700006400/sip.gpf"
	v.ResetFS()
	v.PutFile(name, v.Bytes(v.IntIn(0, v.Param("FILELEN", 24))))
	blk := storage.Block{Offset: v.U64(), Len: v.U32(), RawLen: v.U32(), EncoderType: encoders.Type(v.U8())}
	hdr := &storage.BlockHeader{BlockList: []storage.BlockAtTime{{Timestamp: 1700006700, Block: blk}}}
	def := encoders.EncoderTypeLZ4
	if v.Bool() {
		def = encoders.EncoderTypeZSTD
	}
	g, err := New(name, hdr, ModeRead, WithEncoderTypeLevel(def, 0))
	v.Assert(err == nil, "reader created")
	data, err := g.ReadBlockAtIndex(0)
	v.Reach("read-attempted")
	if err == nil {
		v.Reach("read-ok")
		v.Assert(uint32(len(data)) == blk.RawLen, "a successful read returns the announced number of bytes")
	}
}
