package query

import (
	"strings"

	v "github.com/els0r/goProbe/v4/zz_verif"
)

var verifC10Cmps = [][]string{
	{"=", "eq", "-eq", "equals", "==", "===", "EQ"},
	{"!=", "neq", "-neq", "ne", "-ne"},
	{"<=", "le", "-le", "leq", "-leq"},
	{">=", "ge", "-ge", "geq", "-geq"},
	{"<", "less", "l", "-l", "lt", "-lt"},
	{">", "greater", "g", "-g", "gt", "-gt"},
}

var verifC10Logic = [][]string{
	{"&", "and", "&&", "*", "AND"},
	{"|", "or", "||", "+", "Or"},
}

// spelling of the unary negation in front of the second condition ("" = none); the word form needs
// whitespace on both sides, which the padding of the logical operator and the trailing blank provide
var verifC10Not = []string{"", "!", "! ", "not ", "NOT  "}

// second condition: attribute and value words that begin like an operator word ("ne", "g", "l", "eq")
var verifC10Second = [][2]string{{"proto", "6"}, {"net", "10.0.0.0/8"}, {"proto", "gre"}, {"proto", "egp"}, {"dport", "less"}}

var verifC10WS = []string{" \t ", " ", "\n"}

func verifC10Idx(n int) int {
	for i := 0; i < n-1; i++ {
		if v.Bool() {
			return i
		}
	}
	return n - 1
}

func verifC10Pick(l []string) string { return l[verifC10Idx(len(l))] }

// VerifC10_Spellings: a two-condition query written with any documented spelling of the comparison
// operators, of and / or, and of the negation (word forms enclosed by whitespace, mixed case, varying
// amounts of whitespace) is accepted by the real prepConditionArg, its stored canonical form is the symbol
// form of the same condition, and preparing the canonical form again changes nothing.
func VerifC10_Spellings() {
	c1 := verifC10Idx(len(verifC10Cmps))
	c2 := verifC10Idx(v.Param("C2", 1)) // "=" or "!=" (the only comparisons address attributes support)
	lg := verifC10Idx(2)
	op1, op2, l, not, ws := verifC10Pick(verifC10Cmps[c1]), verifC10Pick(verifC10Cmps[c2][:v.Param("OP2", 1)]), verifC10Pick(verifC10Logic[lg]), verifC10Pick(verifC10Not), verifC10Pick(verifC10WS[:v.Param("WS", 1)])
	second := verifC10Second[verifC10Idx(v.Param("SECOND", 3))]
	text := "dport" + ws + op1 + ws + "80" + ws + l + ws + not + second[0] + ws + op2 + ws + second[1]
	want := []string{"dport", verifC10Cmps[c1][0], "80", verifC10Logic[lg][0]}
	if not != "" {
		want = append(want, "!")
	}
	want = append(want, second[0], verifC10Cmps[c2][0], second[1])

	var s Statement
	var em DetailError
	prepConditionArg(&Args{Condition: text}, &s, &em)
	v.Reach("prepared")
	if second[1] == "less" {
		// not a port number: rejected, but the canonical form must still be the symbol form
		v.Assert(len(em.Errors) == 1, "a condition with a malformed value is rejected")
		v.Assert(s.Condition == strings.Join(want, " "), "the canonical form is the symbol form of the same condition")
		return
	}
	v.Assert(len(em.Errors) == 0, "a condition written with documented operator spellings is accepted")
	v.Assert(s.Condition == strings.Join(want, " "), "the canonical form is the symbol form of the same condition")

	var s2 Statement
	var em2 DetailError
	prepConditionArg(&Args{Condition: s.Condition}, &s2, &em2)
	v.Assert(len(em2.Errors) == 0, "the canonical form is accepted")
	v.Assert(s2.Condition == s.Condition, "canonicalising the canonical form changes nothing")
}
