package node

import (
	v "github.com/els0r/goProbe/v4/zz_verif"
)

func verifC10Count(n Node) (leaves, nots, bins int) {
	switch x := n.(type) {
	case conditionNode:
		return 1, 0, 0
	case notNode:
		l, m, b := verifC10Count(x.node)
		return l, m + 1, b
	case andNode:
		l1, m1, b1 := verifC10Count(x.left)
		l2, m2, b2 := verifC10Count(x.right)
		return l1 + l2, m1 + m2, b1 + b2 + 1
	case orNode:
		l1, m1, b1 := verifC10Count(x.left)
		l2, m2, b2 := verifC10Count(x.right)
		return l1 + l2, m1 + m2, b1 + b2 + 1
	}
	v.Assert(false, "the parser only builds condition, not, and, or nodes")
	return
}

// VerifC10_Parse: for every sequence of up to TOKENS tokens (each an arbitrary string of 1..5 bytes) the
// recursive-descent parser returns - it never panics or runs off the token slice - and yields either an
// error or a tree that accounts for every token: three per condition leaf, one per operator, two per
// bracket pair.
func VerifC10_Parse() {
	k := v.Concretize(v.IntIn(0, v.Param("TOKENS", 5)))
	toks := make([]string, k)
	reduced := v.Param("REDUCED", 0) == 1
	for i := range toks {
		t := v.Str(v.IntIn(1, 5))
		if reduced {
			// longer sequences: the attribute and comparator lists are represented by two members each
			// (the parser walks the lists and treats all members alike)
			v.Assume(v.PureBool(func() bool {
				return t != "dip" && t != "dnet" && t != "snet" && t != "proto" && t != "dir" &&
					t != "dst" && t != "src" && t != "host" && t != "net" && t != "port" &&
					t != "protocol" && t != "ipproto" && t != "direction" &&
					t != "!=" && t != ">=" && t != "<" && t != ">"
			}))
		}
		toks[i] = t
	}
	n, err := parseConditional(toks)
	v.Reach("parsed")
	if err != nil {
		v.Assert(n == nil, "a rejected token sequence yields no tree")
		return
	}
	v.Assert(n != nil, "an accepted token sequence yields a tree")
	leaves, nots, bins := verifC10Count(n)
	v.Assert(bins == leaves-1, "binary operators join the leaves")
	rest := k - 3*leaves - nots - bins
	v.Assert(rest >= 0 && rest%2 == 0, "every token is a leaf part, an operator or one of a bracket pair")
}
