package conditions

import (
	"strings"

	v "github.com/els0r/goProbe/v4/zz_verif"
)

// VerifC10_Tokenize: for every byte string of up to LEN bytes the tokenizer returns without error or
// panic, emits no empty or whitespace token, and the canonical form (tokens joined by single spaces, what
// prepConditionArg stores) tokenizes to exactly the same token sequence - so it parses to the same
// condition and canonicalising it again changes nothing.
func VerifC10_Tokenize() {
	n := v.Concretize(v.IntIn(0, v.Param("LEN", 4)))
	s := v.Str(n)
	toks, err := Tokenize(s)
	v.Assert(err == nil, "tokenizing never fails on short input")
	for _, t := range toks {
		v.Assert(len(t) > 0, "no empty token")
		v.Assert(t != " ", "no whitespace token")
	}
	canon := strings.Join(toks, " ")
	toks2, err2 := Tokenize(canon)
	v.Assert(err2 == nil, "tokenizing the canonical form never fails")
	v.Assert(len(toks2) == len(toks), "the canonical form has the same number of tokens")
	for i := range toks {
		if i < len(toks2) {
			v.Assert(toks[i] == toks2[i], "the canonical form has the same tokens")
		}
	}
	v.Reach("tokenized")
}
