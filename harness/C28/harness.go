package query

import (
	"errors"
	"time"

	v "github.com/els0r/goProbe/v4/zz_verif"
)

// VerifC28_RelativeCompact: "-XdYhZm" denotes now minus that duration (the number before 'd' and the
// duration after it are symbolic; the duration is what time.ParseDuration returns for "YhZm").
func VerifC28_RelativeCompact() {
	d, h, m := v.I64(), v.I64(), v.I64()
	v.Assume(d >= 0 && d < 1<<32 && h >= 0 && h < 1<<20 && m >= 0 && m < 1<<20)
	v.SetNum("D", d)
	rest := (h*3600 + m*60) * 1000000000
	v.SetNum("R", rest)
	var got int64
	var err error
	switch v.Concretize(v.Choice(3)) {
	case 0: // days only
		got, err = parseRelativeTime("-Dd")
		h, m = 0, 0
	case 1: // days and the rest
		got, err = parseRelativeTime("-DdR")
	default: // no day part
		got, err = parseRelativeTime("-R")
		d = 0
	}
	v.Reach("parsed")
	v.Assert(err == nil, "a well-formed relative time is accepted")
	now := v.NowSec()
	// the clock value used by the parser is at most the next reading (non-decreasing stub)
	want := 86400*d + 3600*h + 60*m
	v.Assert(got <= now-want, "relative time is now minus the duration")
	v.Assert(verifNowSeen-want == got, "relative time equals the parser's clock reading minus d*86400+h*3600+m*60")
}

// VerifC28_RelativeColon: "-Xd:Yh:Zm:Ws" denotes now minus that duration; unknown units are rejected.
func VerifC28_RelativeColon() {
	d, h, m, s := v.I64(), v.I64(), v.I64(), v.I64()
	v.Assume(d >= 0 && d < 1<<32 && h >= 0 && h < 1<<32 && m >= 0 && m < 1<<32 && s >= 0 && s < 1<<32)
	v.SetNum("D", d)
	v.SetNum("H", h)
	v.SetNum("M", m)
	v.SetNum("S", s)
	switch v.Concretize(v.Choice(4)) {
	case 0:
		got, err := parseRelativeTime("-Dd:Hh:Mm")
		v.Reach("dhm")
		v.Assert(err == nil && got == verifNowSeen-(86400*d+3600*h+60*m), "-Xd:Yh:Zm is now minus the duration")
	case 1:
		got, err := parseRelativeTime("-Mm:Dd:Ss")
		v.Reach("mds")
		v.Assert(err == nil && got == verifNowSeen-(86400*d+60*m+s), "chunks may come in any order")
	case 2:
		_, err := parseRelativeTime("-Dd:Hx")
		v.Reach("unknown-unit")
		v.Assert(err != nil, "an unknown unit is rejected")
	default:
		_, err := parseRelativeTime("-Dd::Mm")
		v.Reach("empty-chunk")
		v.Assert(err != nil, "an empty chunk is rejected")
	}
}

// VerifC28_Edge: malformed relative times are errors, never crashes.
func VerifC28_Edge() {
	for _, s := range []string{"", "-", "5d", "-d", "-:", "-d:", "-!d", "-Dd:!h"} {
		v.SetNum("D", 1)
		_, err := parseRelativeTime(s)
		v.Assert(err != nil, "malformed relative time is rejected")
	}
	v.Reach("edge")
}

// VerifC28_Range: a range whose start lies after its end is rejected, also when the end defaults to now.
func VerifC28_Range() {
	first, last := v.I64(), v.I64()
	v.SetNum("F", first)
	v.SetNum("L", last)
	if v.Bool() {
		f, l, err := ParseTimeRange("F", "L")
		v.Reach("explicit")
		v.Assert((err != nil) == (first > last), "first > last is rejected, anything else accepted")
		if err == nil {
			v.Assert(f == first && l == last, "bounds returned as parsed")
		}
		_, _, details := ParseTimeRangeCollectErrors("F", "L")
		v.Assert((len(details) > 0) == (first > last), "the collecting variant rejects the same ranges")
	} else {
		f, l, err := ParseTimeRange("F", "")
		v.Reach("open-end")
		v.Assert(l == verifNowSeen, "an omitted end is now")
		v.Assert((err != nil) == (first > l), "a start in the future is rejected when the end is omitted")
		if err == nil {
			v.Assert(f == first, "start returned as parsed")
		}
		_, l2, details := ParseTimeRangeCollectErrors("F", "")
		v.Assert((len(details) > 0) == (first > l2), "the collecting variant rejects a start after now")
	}
}

// clock stub used by the rewritten time.go: remembers the last reading so that the oracle can refer to it
var verifNowSeen int64

func verifNow() int64 {
	verifNowSeen = v.NowSec()
	return verifNowSeen
}

// verifC28Real selects the real body of ParseTimeArgument (the range harness keeps the symbolic-instant stub)
var verifC28Real bool

// contract stub for time.ParseInLocation in time.go: the okAt-th call matches and denotes the instant sec
var verifC28 struct {
	calls, okAt int
	sec         int64
	locOK       bool
}

func verifParseInLocation(layout, value string, loc *time.Location) (time.Time, error) {
	i := verifC28.calls
	verifC28.calls++
	if loc != time.Local {
		verifC28.locOK = false
	}
	if i == verifC28.okAt {
		return time.Unix(verifC28.sec, 0), nil
	}
	return time.Time{}, errors.New("parsing time: no match")
}

// VerifC28_Absolute: the real ParseTimeArgument on text that is neither relative nor a number: the layouts
// are tried in order in the process's local time zone (so that an offset-less text gets the offset in force
// at the instant it denotes), the first match decides, and its instant is returned unchanged; a number is
// returned as the unix time it is without consulting any layout.
func VerifC28_Absolute() {
	verifC28Real = true
	n := len(timeFormatsDefault) + len(timeFormatsCustom)
	v.Assert(n > 0, "layouts are configured")
	sec := v.I64()
	v.Assume(sec >= 0 && sec < 1<<40)
	verifC28.calls, verifC28.okAt, verifC28.sec, verifC28.locOK = 0, v.Concretize(v.IntIn(0, n)), sec, true
	got, err := ParseTimeArgument("!absolute")
	v.Reach("absolute")
	v.Assert(verifC28.locOK, "offset-less layouts are interpreted in the process's local time zone (time.Local), not in a zone fixed beforehand")
	if verifC28.okAt < n {
		v.Assert(err == nil && got == sec, "the instant denoted under the first matching layout is returned")
		v.Assert(verifC28.calls == verifC28.okAt+1, "layouts are tried in order and the first match decides")
	} else {
		v.Assert(err != nil, "text that no layout matches is rejected")
		v.Assert(verifC28.calls == n, "every layout is tried before giving up")
	}
	u := v.I64()
	v.SetNum("U", u)
	verifC28.calls = 0
	got, err = ParseTimeArgument("U")
	v.Assert(err == nil && got == u && verifC28.calls == 0, "a number is the unix time it is")
	verifC28Real = false
}
