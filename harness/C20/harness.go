package capture

import (
	"github.com/els0r/goProbe/v4/pkg/capture/capturetypes"
	"github.com/els0r/goProbe/v4/pkg/types"
	"github.com/els0r/goProbe/v4/pkg/types/hashmap"
	v "github.com/els0r/goProbe/v4/zz_verif"
	"github.com/fako1024/slimcap/capture"
)

type verifC20Pkt struct {
	typ  byte
	size uint32
	aux  byte
}

func verifC20P() verifC20Pkt { return verifC20Pkt{typ: v.U8(), size: v.U32(), aux: v.U8()} }

func (p verifC20Pkt) addTo(c *types.Counters) {
	if p.typ == capture.PacketOutgoing {
		c.BytesSent += uint64(p.size)
		c.PacketsSent++
		return
	}
	c.BytesRcvd += uint64(p.size)
	c.PacketsRcvd++
}

// VerifC20_SameFlowV4: packets of one conversation - same direction again, and the opposite direction -
// are counted in a single flow record, whatever the ports, protocol and flags.
func VerifC20_SameFlowV4() {
	var h capturetypes.EPHashV4
	copy(h[:], v.Bytes(capturetypes.EPHashSizeV4))
	c := &Capture{flowLog: NewFlowLog()}
	p1, p2, p3 := verifC20P(), verifC20P(), verifC20P()
	c.addToFlowLogV4(h, p1.typ, p1.size, p1.aux)
	c.addToFlowLogV4(h, p2.typ, p2.size, p2.aux)
	c.addToFlowLogV4(h.Reverse(), p3.typ, p3.size, p3.aux)
	v.Reach("added")
	v.Assert(len(c.flowLog.flowMapV4) == 1, "one conversation is one flow record")
	var want types.Counters
	p1.addTo(&want)
	p2.addTo(&want)
	p3.addTo(&want)
	for _, f := range c.flowLog.flowMapV4 {
		v.Assert(types.Counters(*f) == want, "the record counts every packet once, by direction")
	}
}

func VerifC20_SameFlowV6() {
	var h capturetypes.EPHashV6
	copy(h[:], v.Bytes(capturetypes.EPHashSizeV6))
	c := &Capture{flowLog: NewFlowLog()}
	p1, p2, p3 := verifC20P(), verifC20P(), verifC20P()
	c.addToFlowLogV6(h, p1.typ, p1.size, p1.aux)
	c.addToFlowLogV6(h, p2.typ, p2.size, p2.aux)
	c.addToFlowLogV6(h.Reverse(), p3.typ, p3.size, p3.aux)
	v.Reach("added")
	v.Assert(len(c.flowLog.flowMapV6) == 1, "one conversation is one flow record")
	var want types.Counters
	p1.addTo(&want)
	p2.addTo(&want)
	p3.addTo(&want)
	for _, f := range c.flowLog.flowMapV6 {
		v.Assert(types.Counters(*f) == want, "the record counts every packet once, by direction")
	}
}

func verifC20Flatten(m *hashmap.Map) (n int, sum types.Counters, key []byte) {
	for it := m.Iter(); it.Next(); {
		n++
		sum.Add(it.Val())
		key = append([]byte(nil), it.Key()...)
	}
	return
}

// VerifC20_Intervals: three packets of one client/server pair (client->server, server->client, and a second
// connection from another source port) and a write-out at every position: per interval exactly one stored
// record (source ports aggregated away) whose counters are the packets of that interval; totals add up;
// an interval without traffic writes nothing and the idle flows are dropped.
func VerifC20_Intervals() {
	var h capturetypes.EPHashV4
	copy(h[:], v.Bytes(capturetypes.EPHashSizeV4))
	// a decisive client->server pair: ephemeral source ports, a service port below 32768, UDP or TCP without flags
	v.Assume(h[4] >= 128 && h[10] < 128 && (h[10] != 0 || h[11] != 0))
	v.Assume(h[12] == capturetypes.UDP || h[12] == capturetypes.TCP)
	v.Assume(!(h[6] == 0xFF || h[6] == 0xE0)) // not broadcast / multicast
	h2 := h
	h2[4], h2[5] = v.U8(), v.U8()
	v.Assume(h2[4] >= 128 && (h2[4] != h[4] || h2[5] != h[5]))
	hashes := [3]capturetypes.EPHashV4{h, h.Reverse(), h2}
	pk := [3]verifC20Pkt{verifC20P(), verifC20P(), verifC20P()}
	for i := range pk {
		pk[i].aux = 0
	}
	c := &Capture{flowLog: NewFlowLog()}
	r := v.Concretize(v.IntIn(0, 3)) // write-out before packet r
	wantKey := make([]byte, types.KeyWidthIPv4)
	copy(wantKey[0:4], h[0:4])
	copy(wantKey[4:8], h[6:10])
	wantKey[8], wantKey[9], wantKey[10] = h[10], h[11], h[12]
	var all types.Counters
	check := func(lo, hi int, what string) {
		agg, totals := c.flowLog.Rotate()
		var want types.Counters
		for i := lo; i < hi; i++ {
			pk[i].addTo(&want)
		}
		all.Add(want)
		n, sum, key := verifC20Flatten(agg.PrimaryMap)
		n6, _, _ := verifC20Flatten(agg.SecondaryMap)
		v.Assert(n6 == 0, what+": no IPv6 record for IPv4 traffic")
		if hi == lo {
			v.Assert(n == 0, what+": an interval without traffic writes no flow")
			return
		}
		v.Assert(n == 1, what+": one stored record per conversation and interval (source ports aggregated away)")
		v.Assert(sum == want, what+": stored counters equal the packets of the interval")
		v.Assert(*totals == want, what+": reported totals equal the packets of the interval")
		v.Assert(v.EqBytes(key, wantKey), what+": stored key is client -> server without the source port")
	}
	for i := 0; i < r; i++ {
		c.addToFlowLogV4(hashes[i], pk[i].typ, pk[i].size, pk[i].aux)
	}
	check(0, r, "first write-out")
	for i := r; i < 3; i++ {
		c.addToFlowLogV4(hashes[i], pk[i].typ, pk[i].size, pk[i].aux)
	}
	check(r, 3, "second write-out")
	check(3, 3, "idle write-out")
	v.Assert(c.flowLog.Len() == 0, "flows without traffic in an interval are dropped from memory")
	v.Reach("intervals")
}
