package csvimport

import (
	"context"
	"io"

	"github.com/els0r/goProbe/v4/pkg/types"
	"github.com/els0r/goProbe/v4/pkg/types/hashmap"
	v "github.com/els0r/goProbe/v4/zz_verif"
)

// ---- stubs called from the rewritten import.go -----------------------------------------------------

var (
	verifRows   [][]string
	verifRowPos int
)

func verifReadRow() ([]string, error) {
	if verifRowPos >= len(verifRows) {
		return nil, io.EOF
	}
	r := verifRows[verifRowPos]
	verifRowPos++
	return r, nil
}

type verifEntry struct {
	key []byte
	v4  bool
	c   types.Counters
}

type verifWrite struct {
	iface   string
	ts      int64
	entries []verifEntry
}

var verifWrites []verifWrite

// recorder in place of DBWriter.Write: flattens the flow map through the real iterator
func verifRecordWrite(iface string, fm *hashmap.AggFlowMap, ts int64) error {
	w := verifWrite{iface: iface, ts: ts}
	for it := fm.PrimaryMap.Iter(); it.Next(); {
		k := make([]byte, len(it.Key()))
		copy(k, it.Key())
		w.entries = append(w.entries, verifEntry{key: k, v4: true, c: it.Val()})
	}
	for it := fm.SecondaryMap.Iter(); it.Next(); {
		k := make([]byte, len(it.Key()))
		copy(k, it.Key())
		w.entries = append(w.entries, verifEntry{key: k, v4: false, c: it.Val()})
	}
	verifWrites = append(verifWrites, w)
	return nil
}

// ---- harness ---------------------------------------------------------------------------------------

type verifRow struct {
	short, mixed bool // malformed: too few fields / source and destination of different families
	v4           bool
	iface        string
	ts           int64
	sip, dip     []byte
	dport        uint16
	proto        uint8
	c            types.Counters
	accepted     bool
}

const verifSchemaIface = "time,iface,sip,dip,dport,proto,packets received,packets sent,data vol. received,data vol. sent"

func verifMakeRow(i int) (verifRow, []string) {
	var r verifRow
	p := string(rune('a' + i))
	simple := v.Param("SIMPLE", 0) == 1 // well-formed IPv4 rows on one interface: ordering and duplicates only
	if !simple {
		r.short = v.Bool()
	}
	if r.short {
		return r, []string{p + "time", "eth0"}
	}
	r.v4 = true
	if !simple {
		r.v4 = v.Bool()
		r.mixed = v.Bool()
	}
	n := 16
	if r.v4 {
		n = 4
	}
	r.sip, r.dip = v.Bytes(n), v.Bytes(n)
	if r.mixed {
		r.dip = v.Bytes(20 - n) // the other family
	}
	r.iface = "eth0"
	if !simple && v.Bool() {
		r.iface = "eth1"
	}
	r.ts = v.I64()
	r.dport, r.proto = v.U16(), v.U8()
	r.c = types.Counters{PacketsRcvd: v.U64(), PacketsSent: v.U64(), BytesRcvd: v.U64(), BytesSent: v.U64()}
	v.SetNum(p+"time", r.ts)
	v.SetIP(p+"sip", r.sip)
	v.SetIP(p+"dip", r.dip)
	v.SetNum(p+"dport", int64(r.dport))
	v.SetNum(p+"proto", int64(r.proto))
	v.SetNum(p+"pr", int64(r.c.PacketsRcvd))
	v.SetNum(p+"ps", int64(r.c.PacketsSent))
	v.SetNum(p+"br", int64(r.c.BytesRcvd))
	v.SetNum(p+"bs", int64(r.c.BytesSent))
	return r, []string{p + "time", r.iface, p + "sip", p + "dip", p + "dport", p + "proto", p + "pr", p + "ps", p + "br", p + "bs"}
}

// the stored key of a row (basic key without the time extension)
func verifRowKey(r *verifRow) []byte {
	var k []byte
	if r.v4 {
		k = make([]byte, types.KeyWidthIPv4)
		copy(k[0:4], r.sip)
		copy(k[4:8], r.dip)
		k[8], k[9], k[10] = byte(r.dport>>8), byte(r.dport), r.proto
	} else {
		k = make([]byte, types.KeyWidthIPv6)
		copy(k[0:16], r.sip)
		copy(k[16:32], r.dip)
		k[32], k[33], k[34] = byte(r.dport>>8), byte(r.dport), r.proto
	}
	return k
}

// VerifC26_Import: for every CSV of N rows (valid, short, mixed-family, rows without a time, duplicates,
// time regressions) rows read = imported + skipped, a regression is rejected, and every imported row is in
// the recorded write of its interface and timestamp with its counters summed over rows sharing the key.
func VerifC26_Import() {
	n := v.Param("ROWS", 2)
	verifRows, verifRowPos, verifWrites = nil, 0, nil
	rows := make([]verifRow, 0, 4)
	for i := 0; i < n; i++ {
		r, text := verifMakeRow(i)
		rows = append(rows, r)
		verifRows = append(verifRows, text)
	}
	sum, err := Import(context.Background(), Options{InputPath: "in.csv", OutputPath: "/db", Schema: verifSchemaIface})
	// reference: which rows are accepted, and is there a regression among them
	regression := false
	have := false
	var cur int64
	imported, skipped := 0, 0
	for i := range rows {
		r := &rows[i]
		if r.short || r.mixed || r.ts <= 0 {
			skipped++
			continue
		}
		if have && r.ts < cur {
			regression = true
			break
		}
		have, cur = true, r.ts
		r.accepted = true
		imported++
	}
	if regression {
		v.Reach("regression")
		v.Assert(err != nil, "input that goes backwards in time is rejected")
		return
	}
	v.Reach("imported")
	v.Assert(err == nil, "ordered input is imported without error")
	v.Assert(sum.RowsRead == n, "all rows read")
	v.Assert(sum.RowsRead == sum.RowsImported+sum.RowsSkipped, "rows read = rows imported + rows skipped")
	v.Assert(sum.RowsImported == imported && sum.RowsSkipped == skipped, "exactly the well-formed rows are imported")
	// every accepted row is stored under its interface and timestamp with summed counters
	for i := range rows {
		r := &rows[i]
		if !r.accepted {
			continue
		}
		key := verifRowKey(r)
		var want types.Counters
		for j := range rows {
			o := &rows[j]
			if o.accepted && o.iface == r.iface && o.ts == r.ts && o.v4 == r.v4 && v.EqBytes(verifRowKey(o), key) {
				want.Add(o.c)
			}
		}
		found := 0
		for _, w := range verifWrites {
			if w.iface != r.iface || w.ts != r.ts {
				continue
			}
			for _, e := range w.entries {
				if e.v4 == r.v4 && v.EqBytes(e.key, key) {
					found++
					v.Assert(e.c == want, "stored counters are the sum over the rows sharing the key")
				}
			}
		}
		v.Assert(found == 1, "every imported row is stored exactly once under its interface and timestamp")
	}
	// writes per interface are in increasing time
	for a := range verifWrites {
		for b := a + 1; b < len(verifWrites); b++ {
			if verifWrites[a].iface == verifWrites[b].iface {
				v.Assert(verifWrites[a].ts < verifWrites[b].ts, "blocks of an interface are written in increasing time")
			}
		}
	}
	v.Assert(sum.BlocksWritten == len(verifWrites), "reported block count matches the writes")
}
