package gpfile

import (
	"github.com/els0r/goProbe/v4/pkg/types"
	v "github.com/els0r/goProbe/v4/zz_verif"
)

// the reader of a query, cut into the phases between which a concurrent writer may run:
// 0 list the month directory and construct the day reader from the listed name, 1 Open, 2 read and check
// every block the opened metadata announces (then Close)
type verifC30Reader struct {
	fromName Stats // totals decoded from the listed directory name (what listings / metadata-only queries use)
	hasName  bool
	phase  int
	r      *GPDir
	before []verifC04Blk // committed before the reader started
	during []verifC04Blk // written concurrently (one write-out each)
	n      int
	nameBlocks int // number of blocks the listed name's totals stand for
	cols   int // phase 2 reads this many columns per step (0: all in one step)
}

func (rd *verifC30Reader) last() int {
	if rd.cols == 1 {
		return 3
	}
	return 2
}

func (rd *verifC30Reader) done() bool { return rd.phase > rd.last() }

func (rd *verifC30Reader) step() {
	switch rd.phase {
	case 0:
		suffix, found := "", 0
		for _, e := range v.ListDir(verifC04Month) {
			ts, sfx, err := ExtractTimestampMetadataSuffix(e.N)
			v.Assert(err == nil && e.Dir, "the month directory holds nothing but day directories")
			if ts == verifC04Day {
				found++
				suffix = sfx
			}
		}
		v.Assert(found == 1, "a day with committed write-outs is listed exactly once at every moment of a write-out")
		rd.r = NewDirReader(verifC04Base, verifC04Day, suffix)
		if rd.r.Metadata != nil {
			rd.fromName, rd.hasName = Stats{Traffic: rd.r.Metadata.Traffic, Counts: rd.r.Metadata.Counts}, true
			all := append(append([]verifC04Blk(nil), rd.before...), rd.during...)
			k := -1
			for n := len(rd.before); n <= len(all); n++ {
				if verifC04SumsTo(rd.fromName, all[:n]) {
					k = n
				}
			}
			v.Assert(k >= 0, "the totals in a listed directory name are those of a completed write-out")
			rd.nameBlocks = k
		}
	case 1:
		err := rd.r.Open()
		v.Assert(err == nil, "opening a day for reading succeeds while it is being written")
		rd.n = rd.r.NBlocks()
		v.Assert(rd.n >= len(rd.before) && rd.n <= len(rd.before)+len(rd.during), "the reader sees the blocks of a completed write-out: the previous state or a newer one")
		if rd.hasName {
			v.Assert(rd.n >= rd.nameBlocks, "a write-out announced by the directory name is already committed when the day is opened")
		}
	case 2, 3:
		// all columns in one step, or (cols == 1) one column per step so that write-outs can complete between
		// the reader's first accesses to different column files
		colset := []types.ColumnIndex{types.SIPColIdx, types.BytesRcvdColIdx}
		if rd.cols == 1 {
			colset = colset[rd.phase-2 : rd.phase-1]
		}
		want := append(append([]verifC04Blk(nil), rd.before...), rd.during...)
		var traffic TrafficMetadata
		for i := 0; i < rd.n; i++ {
			for _, c := range colset {
				got, err := rd.r.ReadBlockAtIndex(c, i)
				v.Assert(err == nil, "reading a block succeeds while the day is being written")
				v.Assert(v.EqBytes(got, want[i].data[c]), "a block read during a write-out is undamaged")
			}
			v.Assert(rd.r.BlockMetadata[0].BlockList[i].Timestamp == want[i].ts, "a block read during a write-out has its timestamp")
			traffic = traffic.Add(want[i].traffic)
		}
		v.Assert(rd.r.NBlocks() >= rd.n, "the day does not lose blocks under the reader")
		if rd.r.NBlocks() == rd.n {
			v.Assert(rd.r.Metadata.Traffic == traffic, "the totals belong to the blocks seen")
		}
		if rd.phase == rd.last() {
			v.Assert(rd.r.Close() == nil, "closing the reader succeeds")
		}
	}
	rd.phase++
}

// VerifC30_ReaderPhases: a reader whose three phases (list + construct, Open, read all blocks) are placed at
// arbitrary system-call boundaries of a concurrent write-out to the same day never fails and sees the day
// as of a completed write-out - the previous ones or including the concurrent one - with undamaged blocks.
func VerifC30_ReaderPhases() {
	v.ResetTree()
	rd := &verifC30Reader{cols: v.Param("SPLITCOLS", 0)}
	for k := 0; k < v.Param("BEFORE", 1); k++ {
		b := verifC04Block(k)
		v.Assert(verifC04WriteOut(b) == nil, "an undisturbed write-out succeeds")
		rd.before = append(rd.before, b)
	}
	for k := 0; k < v.Param("DURING", 1); k++ {
		rd.during = append(rd.during, verifC04Block(len(rd.before)+k))
	}
	first := v.Param("FIRSTPHASE", 0)
	for rd.phase < first {
		rd.step() // phases before FIRSTPHASE happen before the write-out starts
	}
	v.FSYield = func() {
		for !rd.done() && v.Bool() {
			rd.step()
		}
	}
	for _, b := range rd.during {
		v.Assert(verifC04WriteOut(b) == nil, "the write-out succeeds with a reader on the day")
	}
	v.FSYield = nil
	for !rd.done() {
		rd.step()
	}
	v.Reach("interleaved")
}

// VerifC30_WriteOutInsideRead: a complete write-out placed at any system-call boundary inside the reader's
// own operations (between the metadata open and read, between the failed open of a moved column file and the
// recovery listing, ...) - the reader still never fails and sees a completed state.
func VerifC30_WriteOutInsideRead() {
	v.ResetTree()
	rd := &verifC30Reader{}
	for k := 0; k < v.Param("BEFORE", 1); k++ {
		b := verifC04Block(k)
		v.Assert(verifC04WriteOut(b) == nil, "an undisturbed write-out succeeds")
		rd.before = append(rd.before, b)
	}
	rd.during = []verifC04Blk{verifC04Block(len(rd.before))}
	written := false
	v.FSYield = func() {
		if !written && v.Bool() {
			written = true
			v.Assert(verifC04WriteOut(rd.during[0]) == nil, "the write-out succeeds with a reader on the day")
		}
	}
	for !rd.done() {
		if !written && v.Bool() { // ... or between two reader phases
			written = true
			v.Assert(verifC04WriteOut(rd.during[0]) == nil, "the write-out succeeds with a reader on the day")
		}
		rd.step()
	}
	v.FSYield = nil
	v.Reach("interleaved")
}
