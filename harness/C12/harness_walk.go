package goDB

import (
	"strconv"
	"time"

	"github.com/els0r/goProbe/v4/pkg/goDB/storage/gpfile"
	v "github.com/els0r/goProbe/v4/zz_verif"
)

// the real directory walk is kept under the name walkDBReal (text rewrite); the other C12 harnesses use the
// stub, this one the real walk over the model file system
var verifRealWalk bool

func (w *DBWorkManager) walkDB(tfirst, tlast int64, fn dbWalkFunc) (numDirs int, err error) {
	if verifRealWalk {
		return w.walkDBReal(tfirst, tlast, fn)
	}
	return verifWalkDB(w, tfirst, tlast, fn)
}

// days of the model database: around two year boundaries and month boundaries, in three years
var verifC12WalkDays = []int64{
	1669766400, // 2022-11-30
	1669852800, // 2022-12-01
	1672444800, // 2022-12-31
	1672531200, // 2023-01-01
	1675123200, // 2023-01-31
	1675209600, // 2023-02-01
	1688169600, // 2023-07-01
	1701302400, // 2023-11-30
	1703980800, // 2023-12-31
	1704067200, // 2024-01-01
	1706745600, // 2024-02-01
}

func verifC12Pick(n int) int {
	for i := 0; i < n-1; i++ {
		if v.Bool() {
			return i
		}
	}
	return n - 1
}

// VerifC12_Walk: the directory walk hands exactly the day directories that overlap the query range to its
// callback, each once and in ascending order - for every range, in particular ranges that cross a month
// or a year boundary or lie within one month.
func VerifC12_Walk() {
	v.ResetTree()
	for _, d := range verifC12WalkDays {
		t := time.Unix(d, 0).UTC()
		m := strconv.Itoa(int(t.Month()))
		if len(m) == 1 {
			m = "0" + m
		}
		p := "/db/eth0/" + strconv.Itoa(t.Year()) + "/" + m + "/" + strconv.FormatInt(d, 10) + "_x"
		v.Assert(v.MkdirAll(p, 0o755) == nil, "setup")
	}
	// range ends: any of the days, shifted by one of a few offsets around the day boundaries (concrete per
	// path: the calendar arithmetic of time.Unix(..).Year()/Month() on symbolic instants is too slow)
	offs := []int64{-1, 0, 86399, -86400, 1}[:v.Param("OFFSETS", 3)]
	i := verifC12Pick(len(verifC12WalkDays))
	j := i + verifC12Pick(len(verifC12WalkDays)-i)
	tfirst, tlast := verifC12WalkDays[i]+offs[verifC12Pick(len(offs))], verifC12WalkDays[j]+offs[verifC12Pick(len(offs))]
	if tfirst > tlast {
		return
	}
	w := &DBWorkManager{dbIfaceDir: "/db/eth0", iface: "eth0"}
	verifRealWalk = true
	var seen []int64
	n, err := w.walkDBReal(tfirst, tlast, func(numDirs int, dayTimestamp int64, suffix string) error {
		v.Assert(numDirs == len(seen), "the callback is numbered consecutively")
		seen = append(seen, dayTimestamp)
		return nil
	})
	verifRealWalk = false
	v.Reach("walked")
	v.Assert(err == nil, "the walk succeeds")
	v.Assert(n == len(seen), "the walk reports the number of directories visited")
	k := 0
	for _, d := range verifC12WalkDays {
		overlaps := tfirst < d+gpfile.EpochDay && d < tlast+DBWriteInterval
		if overlaps {
			v.Assert(k < len(seen) && seen[k] == d, "every day directory overlapping the range is visited, in ascending order")
			k++
		}
	}
	v.Assert(k == len(seen), "no day directory outside the range is visited")
}
