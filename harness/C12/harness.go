package goDB

import (
	"github.com/els0r/goProbe/v4/pkg/goDB/storage"
	"github.com/els0r/goProbe/v4/pkg/goDB/storage/gpfile"
	"github.com/els0r/goProbe/v4/pkg/types"
	v "github.com/els0r/goProbe/v4/zz_verif"
)

type verifBlock struct {
	ts      int64
	traffic gpfile.TrafficMetadata
	counts  types.Counters
}

type verifDay struct {
	ts     int64
	blocks []verifBlock
}

var verifDays []verifDay

// 8-byte-wide bitpack encoding of the given values
func verifPack8(vals ...uint64) []byte {
	b := make([]byte, 1+8*len(vals))
	b[0] = 8
	for i, x := range vals {
		for k := 0; k < 8; k++ {
			b[1+8*i+k] = byte(x >> (8 * k))
		}
	}
	return b
}

// stub of walkDB: visits the harness days (ascending) that pass the real day-level range test
func verifWalkDB(w *DBWorkManager, tfirst, tlast int64, fn dbWalkFunc) (numDirs int, err error) {
	w.tFirstCovered, w.tLastCovered = tfirst, tlast
	for _, d := range verifDays {
		if tfirst < d.ts+gpfile.EpochDay && d.ts < tlast+DBWriteInterval {
			if err := fn(numDirs, d.ts, ""); err != nil {
				return numDirs, err
			}
			numDirs++
		}
	}
	return numDirs, nil
}

// verifC12Setup builds D days with NB blocks each: symbolic strictly increasing block times inside the day,
// symbolic per-block flow counts, drops and counters; day totals are the sums (consistent metadata).
func verifC12Setup(nDays, nBlocks int) {
	verifDays = nil
	gpfile.VerifDirs, gpfile.VerifDirTimes = nil, nil
	base := int64(1700006400) // a day boundary (multiple of 86400)
	for di := 0; di < nDays; di++ {
		day := verifDay{ts: base + int64(di)*gpfile.EpochDay}
		md := gpfile.VerifNewMetadata()
		prev := day.ts - 1
		for bi := 0; bi < nBlocks; bi++ {
			t := v.I64()
			v.Assume(t > prev && t < day.ts+gpfile.EpochDay)
			prev = t
			blk := verifBlock{ts: t,
				traffic: gpfile.TrafficMetadata{NumV4Entries: uint64(v.U32()), NumV6Entries: uint64(v.U32()), NumDrops: uint64(v.U32())},
				counts:  types.Counters{BytesRcvd: v.U64(), BytesSent: v.U64(), PacketsRcvd: v.U64(), PacketsSent: v.U64()}}
			day.blocks = append(day.blocks, blk)
			for c := 0; c < int(types.ColIdxCount); c++ {
				md.BlockMetadata[c].AddBlock(t, storage.Block{RawLen: 9, Len: 9})
			}
			md.BlockTraffic = append(md.BlockTraffic, blk.traffic)
			md.Traffic = md.Traffic.Add(blk.traffic)
			md.Counts.Add(blk.counts)
		}
		verifDays = append(verifDays, day)
		gpfile.VerifDirs = append(gpfile.VerifDirs, gpfile.VerifNewDir(md))
		gpfile.VerifDirTimes = append(gpfile.VerifDirTimes, day.ts)
	}
	gpfile.VerifReadBlock = func(d *gpfile.GPDir, colIdx types.ColumnIndex, blockIdx int) ([]byte, error) {
		for i := range gpfile.VerifDirs {
			if gpfile.VerifDirs[i] == d {
				c := verifDays[i].blocks[blockIdx].counts
				switch colIdx {
				case types.BytesRcvdColIdx:
					return verifPack8(c.BytesRcvd), nil
				case types.BytesSentColIdx:
					return verifPack8(c.BytesSent), nil
				case types.PacketsRcvdColIdx:
					return verifPack8(c.PacketsRcvd), nil
				case types.PacketsSentColIdx:
					return verifPack8(c.PacketsSent), nil
				}
				return verifPack8(0), nil
			}
		}
		panic("verif: unknown directory")
	}
}

// VerifC12_Summary: for every (first,last) range the interface summary equals the sum over the stored
// blocks whose time lies in the range.
func VerifC12_Summary() {
	nDays, nBlocks := v.Param("DAYS", 1), v.Param("BLOCKS", 3)
	verifC12Setup(nDays, nBlocks)
	tfirst, tlast := v.I64(), v.I64()
	v.Assume(tfirst <= tlast)
	v.Assume(tfirst > 1600000000 && tlast < 1800000000)
	w, werr := NewDBWorkManager(NewMetadataQuery(), "/db", "eth0", 1) // as goQuery's list command does
	v.Assert(werr == nil, "work manager created")
	got, err := w.ReadMetadata(tfirst, tlast)
	v.Assert(err == nil, "summary of a readable database succeeds")
	var want gpfile.Stats
	n := 0
	for _, d := range verifDays {
		for _, b := range d.blocks {
			if tfirst <= b.ts && b.ts <= tlast {
				want.Traffic = want.Traffic.Add(b.traffic)
				want.Counts.Add(b.counts)
				n++
			}
		}
	}
	if n > 0 {
		v.Reach("blocks-in-range")
	}
	if n < nDays*nBlocks {
		v.Reach("some-blocks-out-of-range")
	}
	v.Assert(got.Stats.Counts == want.Counts, "packet and byte totals equal the sum over the blocks in range")
	v.Assert(got.Stats.Traffic.NumV4Entries == want.Traffic.NumV4Entries && got.Stats.Traffic.NumV6Entries == want.Traffic.NumV6Entries, "flow counts per IP version equal the sum over the blocks in range")
	v.Assert(got.Stats.Traffic.NumDrops == want.Traffic.NumDrops, "drops equal the sum over the blocks in range")
}
