package capture

import (
	"github.com/els0r/goProbe/v4/pkg/capture/capturetypes"
	v "github.com/els0r/goProbe/v4/zz_verif"
)

// key under which the real insertion path stores a conversation whose first packet has hash h / aux byte a
func verifC22StoredV4(h capturetypes.EPHashV4, aux byte) string {
	c := &Capture{flowLog: NewFlowLog()}
	c.addToFlowLogV4(h, 0, 100, aux)
	v.Assert(len(c.flowLog.flowMapV4) == 1, "first packet creates exactly one flow")
	for k := range c.flowLog.flowMapV4 {
		return k
	}
	return ""
}

func verifC22StoredV6(h capturetypes.EPHashV6, aux byte) string {
	c := &Capture{flowLog: NewFlowLog()}
	c.addToFlowLogV6(h, 0, 100, aux)
	v.Assert(len(c.flowLog.flowMapV6) == 1, "first packet creates exactly one flow")
	for k := range c.flowLog.flowMapV6 {
		return k
	}
	return ""
}

const (
	verifSYN = 0x02
	verifACK = 0x10
)

func verifC22McastV4(ip []byte) bool {
	return (ip[0] == 0xFF && ip[1] == 0xFF && ip[2] == 0xFF && ip[3] == 0xFF) ||
		(ip[0] == 0xE0 && ip[1] == 0x00 && (ip[2] == 0x00 || ip[2] == 0x01))
}

// VerifC22_V4: for every decisive request/response pair the stored key does not depend on which side is seen first.
func VerifC22_V4() {
	var h capturetypes.EPHashV4
	copy(h[:], v.Bytes(capturetypes.EPHashSizeV4))
	proto := h[capturetypes.EPHashV4ProtocolPos]
	a, a2 := v.U8(), v.U8() // aux byte of the first packet in either direction
	sp := uint16(h[4])<<8 | uint16(h[5])
	dp := uint16(h[10])<<8 | uint16(h[11])
	request := false
	switch v.Choice(3) {
	case 0: // TCP handshake: SYN one way, SYN-ACK the other
		v.Assume(proto == capturetypes.TCP)
		v.Assume(a&verifSYN != 0 && a&verifACK == 0)
		v.Assume(a2&verifSYN != 0 && a2&verifACK != 0)
		request = true
		v.Reach("tcp-handshake")
	case 1: // no handshake information: decided by the ports, which must differ
		if proto == capturetypes.TCP {
			v.Assume(a&verifSYN == 0 && a2&verifSYN == 0)
		} else {
			v.Assume(proto == capturetypes.UDP)
			// a conversation towards a broadcast/multicast address has no reverse direction
			v.Assume(!verifC22McastV4(h[6:10]) && !verifC22McastV4(h[0:4]))
		}
		v.Assume(sp != dp)
		v.Reach("ports")
	case 2: // ICMP echo / timestamp exchanges
		v.Assume(proto == capturetypes.ICMP)
		v.Assume((a == 0x08 && a2 == 0x00) || (a == 0x0D && a2 == 0x0E))
		request = true
		v.Reach("icmp")
	}
	k1 := verifC22StoredV4(h, a)
	k2 := verifC22StoredV4(h.Reverse(), a2)
	v.Assert(k1 == k2, "stored key independent of which side is seen first")
	if request {
		v.Assert(k1 == string(h[:]), "request stored requester -> responder")
	}
}

// VerifC22_V6: same for IPv6 (ICMPv6 echo pair).
func VerifC22_V6() {
	var h capturetypes.EPHashV6
	copy(h[:], v.Bytes(capturetypes.EPHashSizeV6))
	proto := h[capturetypes.EPHashV6ProtocolPos]
	a, a2 := v.U8(), v.U8()
	sp := uint16(h[16])<<8 | uint16(h[17])
	dp := uint16(h[34])<<8 | uint16(h[35])
	request := false
	switch v.Choice(3) {
	case 0:
		v.Assume(proto == capturetypes.TCP)
		v.Assume(a&verifSYN != 0 && a&verifACK == 0)
		v.Assume(a2&verifSYN != 0 && a2&verifACK != 0)
		request = true
		v.Reach("tcp-handshake")
	case 1:
		if proto == capturetypes.TCP {
			v.Assume(a&verifSYN == 0 && a2&verifSYN == 0)
		} else {
			v.Assume(proto == capturetypes.UDP)
			v.Assume(h[18] != 0xFF && h[0] != 0xFF)
		}
		v.Assume(sp != dp)
		v.Reach("ports")
	case 2:
		v.Assume(proto == capturetypes.ICMPv6)
		v.Assume(a == 0x80 && a2 == 0x81)
		v.Assume(h[18] != 0xFF && h[0] != 0xFF)
		request = true
		v.Reach("icmp")
	}
	k1 := verifC22StoredV6(h, a)
	k2 := verifC22StoredV6(h.Reverse(), a2)
	v.Assert(k1 == k2, "stored key independent of which side is seen first")
	if request {
		v.Assert(k1 == string(h[:]), "request stored requester -> responder")
	}
}
