package hashmap

import (
	v "github.com/els0r/goProbe/v4/zz_verif"
)

// VerifC11_MergeOrder: merging the per-worker maps into the final map in either order gives the same map
// (per key the sum), also when each partial map is cleared right after it was merged (low-memory mode).
func VerifC11_MergeOrder() {
	const klen = 11
	keys := [][]byte{v.Bytes(klen), v.Bytes(klen), v.Bytes(klen)}
	keys = keys[:v.Param("NKEYS", 2)]
	va, vb := [3]Val{}, [3]Val{}
	inA, inB := [3]bool{}, [3]bool{}
	for i := range keys {
		for j := 0; j < i; j++ {
			v.Assume(!v.EqBytes(keys[i], keys[j]))
		}
		va[i] = Val{BytesRcvd: v.U64(), BytesSent: v.U64(), PacketsRcvd: v.U64(), PacketsSent: v.U64()}
		vb[i] = Val{BytesRcvd: v.U64(), BytesSent: v.U64(), PacketsRcvd: v.U64(), PacketsSent: v.U64()}
		inA[i], inB[i] = v.Bool(), v.Bool()
	}
	build := func(in [3]bool, vals [3]Val) *Map {
		m := New()
		for i := range keys {
			if in[i] {
				m.SetOrUpdate(keys[i], vals[i].BytesRcvd, vals[i].BytesSent, vals[i].PacketsRcvd, vals[i].PacketsSent)
			}
		}
		return m
	}
	lowMem := v.Bool()
	run := func(aFirst bool) *Map {
		a, b := build(inA, va), build(inB, vb)
		dst := New()
		first, second := a, b
		if !aFirst {
			first, second = b, a
		}
		for _, part := range []*Map{first, second} {
			dst.Merge(part)
			if lowMem {
				part.Clear()
			} else {
				part.ClearFast()
			}
		}
		return dst
	}
	m1, m2 := run(true), run(false)
	v.Reach("merged-both-orders")
	n := 0
	for i := range keys {
		var want Val
		if inA[i] {
			want.Add(va[i])
		}
		if inB[i] {
			want.Add(vb[i])
		}
		g1, ok1 := m1.Get(keys[i])
		g2, ok2 := m2.Get(keys[i])
		present := inA[i] || inB[i]
		if present {
			n++
		}
		v.Assert(ok1 == present && ok2 == present, "a key is in the final map exactly when a worker reported it")
		if present {
			v.Assert(g1 == want && g2 == want, "per key the final counters are the sum over the workers, in either merge order and memory mode")
		}
	}
	v.Assert(m1.Len() == n && m2.Len() == n, "the final map holds nothing else")
}
