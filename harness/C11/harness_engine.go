package engine

import (
	"github.com/els0r/goProbe/v4/pkg/goDB"
	"github.com/els0r/goProbe/v4/pkg/types"
	v "github.com/els0r/goProbe/v4/zz_verif"
)

// VerifC11_Jobs: preparing the worker jobs of a query over D day directories returns for every number of
// processing units - the workers are only started after createWorkManager returns, so a send on the job
// channel that finds it full blocks forever.
func VerifC11_Jobs() {
	npu := v.Concretize(v.OneOf(1, 2, v.Param("MAXPU", 4)))
	// one directory more than 64*nPU bulks of 32 directories
	extra := v.Concretize(v.OneOf(0, 1, 40))
	goDB.VerifWalkDays = 64*npu*32 + extra
	q := goDB.NewQuery(nil, nil, types.LabelSelector{})
	wm, nonempty, err := createWorkManager("/db", "eth0", 1600000000, 1800000000, q, npu)
	v.Reach("jobs-created")
	v.Assert(err == nil && wm != nil && nonempty, "job creation succeeds")
	v.Assert(int(wm.GetNumWorkers()) == (goDB.VerifWalkDays+31)/32, "every day directory is part of exactly one job")
}
