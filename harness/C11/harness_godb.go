package goDB

import (
	"github.com/els0r/goProbe/v4/pkg/goDB/storage"
	"github.com/els0r/goProbe/v4/pkg/goDB/storage/gpfile"
	"github.com/els0r/goProbe/v4/pkg/types"
)

// VerifWalkDays is the number of day directories the stubbed directory walk visits.
var VerifWalkDays int

var verifC11Dir *gpfile.GPDir

func verifC11Walk(w *DBWorkManager, tfirst, tlast int64, fn dbWalkFunc) (numDirs int, err error) {
	w.tFirstCovered, w.tLastCovered = tfirst, tlast
	if verifC11Dir == nil {
		md := gpfile.VerifNewMetadata()
		for c := 0; c < int(types.ColIdxCount); c++ {
			md.BlockMetadata[c].AddBlock(1700006700, storage.Block{})
		}
		verifC11Dir = gpfile.VerifNewDir(md)
		gpfile.VerifDirs, gpfile.VerifDirTimes = []*gpfile.GPDir{verifC11Dir}, []int64{1700006400}
	}
	for i := 0; i < VerifWalkDays; i++ {
		if err := fn(numDirs, 1700006400, ""); err != nil {
			return numDirs, err
		}
		numDirs++
	}
	return numDirs, nil
}
