package engine

import (
	"context"

	"github.com/els0r/goProbe/v4/pkg/goDB"
	"github.com/els0r/goProbe/v4/pkg/goDB/conditions/node"
	"github.com/els0r/goProbe/v4/pkg/query"
	"github.com/els0r/goProbe/v4/pkg/results"
	"github.com/els0r/goProbe/v4/pkg/types"
	"github.com/els0r/goProbe/v4/pkg/types/hashmap"
	v "github.com/els0r/goProbe/v4/zz_verif"
)

// VerifC14_Materialise drives the real result preparation of RunStatement (everything after the
// aggregation; split off as verifC14Tail by a source rewrite that is regenerated on every run): the
// aggregated flows that pass the direction filter become rows, the rows are sorted by the statement's
// order and the hit count / row limit refer to exactly those rows.
func VerifC14_Materialise() {
	n := v.Param("N", 2)
	const base = int64(1700006400)
	withTime := v.Bool()
	attrs := []types.Attribute{types.DportAttribute{}, types.ProtoAttribute{}}
	qr := &QueryRunner{query: goDB.NewQuery(attrs, nil, types.LabelSelector{Timestamp: withTime})}

	m := hashmap.NewAggFlowMapWithMetadata()
	type entry struct {
		ts    int64
		dport uint16
		proto byte
		c     types.Counters
	}
	es := make([]entry, n)
	for i := range es {
		e := &es[i]
		e.dport, e.proto = v.U16(), v.U8()
		e.ts = base + int64(v.IntIn(0, 3))*300
		e.c = types.Counters{BytesRcvd: v.U64(), BytesSent: v.U64(), PacketsRcvd: v.U64(), PacketsSent: v.U64()}
		for j := 0; j < i; j++ {
			v.Assume(es[j].dport != e.dport) // entries of a map have pairwise different keys
		}
		k := types.NewEmptyV4Key()
		k.PutDportV4([]byte{byte(e.dport >> 8), byte(e.dport)})
		k.PutProtoV4(e.proto)
		ek := k.ExtendEmpty()
		if withTime {
			ek = k.Extend(e.ts)
		}
		m.PrimaryMap.Set(hashmap.Key(ek), e.c)
	}
	aggMaps := hashmap.NamedAggFlowMapWithMetadata{"eth0": &m}

	// direction filter: none, or one of the four direction predicates
	var vf *node.ValFilterNode
	dir := v.Concretize(v.Choice(5))
	pass := func(c types.Counters) bool {
		in, out := c.PacketsRcvd > 0, c.PacketsSent > 0
		switch dir {
		case 1:
			return in && !out
		case 2:
			return out && !in
		case 3:
			return in != out
		case 4:
			return in && out
		}
		return true
	}
	switch dir {
	case 1:
		vf = &node.ValFilterNode{ValFilter: func(c hashmap.Val) bool { return c.IsOnlyInbound() }}
	case 2:
		vf = &node.ValFilterNode{ValFilter: func(c hashmap.Val) bool { return c.IsOnlyOutbound() }}
	case 3:
		vf = &node.ValFilterNode{ValFilter: func(c hashmap.Val) bool { return c.IsUnidirectional() }}
	case 4:
		vf = &node.ValFilterNode{ValFilter: func(c hashmap.Val) bool { return c.IsBidirectional() }}
	}

	sortBy := results.SortOrder(1 + v.Concretize(v.Choice(3)))
	sdir := types.Direction(1 + v.Concretize(v.Choice(v.Param("DIRS", 2))))
	asc := v.Concretize(v.Choice(2)) == 1
	limit := uint64(v.IntIn(0, n+1))
	stmt := &query.Statement{SortBy: sortBy, Direction: sdir, SortAscending: asc, NumResults: limit}
	result := results.New()
	result.Start()

	res, err := verifC14Tail(qr, context.Background(), stmt, result, aggMaps, vf, "hostid", "host")
	v.Assert(err == nil && res != nil, "result preparation succeeds")
	v.Reach("materialised")

	// reference: which entries pass, and their sum
	want := 0
	var tot types.Counters
	for i := range es {
		if pass(es[i].c) {
			want++
			tot.Add(es[i].c)
		}
	}
	v.Assert(len(res.Rows) == want, "exactly the flows passing the direction filter become rows")
	v.Assert(res.Summary.Hits.Total == want, "the hit count is the number of rows")
	v.Assert(res.Summary.Totals == tot, "the totals are the sum over the rows")
	wantLimit := limit
	if uint64(want) < wantLimit {
		wantLimit = uint64(want)
	}
	v.Assert(stmt.NumResults == wantLimit, "the row limit is capped by the number of rows and otherwise untouched")
	for i := range es {
		if !pass(es[i].c) {
			continue
		}
		found := false
		for r := range res.Rows {
			row := &res.Rows[r]
			if row.Attributes.DstPort == es[i].dport {
				found = true
				v.Assert(row.Counters == es[i].c && row.Attributes.IPProto == es[i].proto && row.Labels.Iface == "eth0", "a row carries its flow's attributes and counters")
				if withTime {
					v.Assert(row.Labels.Timestamp.Unix() == es[i].ts, "a row carries its flow's time bin")
				}
			}
		}
		v.Assert(found, "every flow passing the direction filter is a row")
	}
	less := results.By(sortBy, sdir, asc)
	for r := 0; r+1 < len(res.Rows); r++ {
		v.Assert(!less(&res.Rows[r+1], &res.Rows[r]), "rows come out in the statement's order (the first rows are the top rows)")
	}
}
