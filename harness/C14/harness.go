package results

import (
	"net/netip"
	"time"

	"github.com/els0r/goProbe/v4/pkg/types"
	v "github.com/els0r/goProbe/v4/zz_verif"
)

func verifAddr(kinds int) netip.Addr {
	k := 1
	if kinds > 1 {
		k = 3 - kinds + v.Concretize(v.Choice(kinds)) // 3: invalid/v4/v6, 2: v4/v6, 1: v4
	}
	switch k {
	case 0:
		return netip.Addr{}
	case 1:
		var b [4]byte
		copy(b[:], v.Bytes(4))
		return netip.AddrFrom4(b)
	}
	var b [16]byte
	copy(b[:], v.Bytes(16))
	return netip.AddrFrom16(b)
}

func verifStr() string {
	// one-byte symbolic strings are enough to exercise every outcome of ==, != and <
	return v.Str(v.Param("STRLEN", 1))
}

// verifRow builds a fully symbolic row. Timestamps are instants in one of two zones (Local / UTC).
func verifRow(addrKinds int, zoned bool) Row {
	var r Row
	sec := v.I64()
	v.Assume(sec >= 0 && sec < 1<<40)
	r.Labels.Timestamp = time.Unix(sec, 0)
	if zoned && v.Bool() {
		r.Labels.Timestamp = r.Labels.Timestamp.UTC()
	}
	r.Labels.Iface = verifStr()
	r.Labels.Hostname = verifStr()
	r.Labels.HostID = verifStr()
	if addrKinds > 0 {
		r.Attributes.SrcIP = verifAddr(addrKinds)
	}
	r.Attributes.IPProto = v.U8()
	r.Attributes.DstPort = v.U16()
	r.Counters = types.Counters{BytesRcvd: v.U64(), BytesSent: v.U64(), PacketsRcvd: v.U64(), PacketsSent: v.U64()}
	return r
}

// rows that are the same result row for ordering purposes: equal instant (whatever the zone), labels and attributes
func verifSameKey(a, b *Row) bool {
	return a.Labels.Timestamp.Equal(b.Labels.Timestamp) && a.Labels.Iface == b.Labels.Iface &&
		a.Labels.Hostname == b.Labels.Hostname && a.Labels.HostID == b.Labels.HostID && a.Attributes == b.Attributes
}

var verifSorts = []SortOrder{SortPackets, SortTraffic, SortTime}
var verifDirs = []types.Direction{types.DirectionSum, types.DirectionIn, types.DirectionOut, types.DirectionBoth}

func verifDir() types.Direction {
	n := len(verifDirs)
	if v.Param("ALLDIRS", 0) == 0 {
		n = 3 // DirectionBoth shares the DirectionSum closures
	}
	return verifDirs[v.Concretize(v.Choice(n))]
}

// VerifC14_Order: every comparator By(sort, direction, ascending) is a strict total order on rows with
// distinct keys: irreflexive, asymmetric, transitive and total - so a correct sort gives one sequence
// for one set of rows, whatever the input order.
func VerifC14_Order() {
	var so SortOrder
	var dir types.Direction
	var asc bool
	if v.Param("ONECFG", 0) == 1 {
		// the attribute tie-break is shared by all comparators: one configuration per direction of use
		so, dir = SortPackets, types.DirectionIn
		asc = v.Concretize(v.Choice(2)) == 1
	} else {
		so = verifSorts[v.Concretize(v.Choice(len(verifSorts)))]
		dir = verifDir()
		asc = v.Concretize(v.Choice(2)) == 1
	}
	less := By(so, dir, asc)
	ka, kb, kc := 0, 0, 0
	if v.Param("ADDR", 0) == 1 {
		ka, kb, kc = 2, 3, 1
		if v.Param("ALLDIRS", 0) == 1 {
			ka, kb, kc = 3, 3, 3
		}
	}
	a, b, c := verifRow(ka, false), verifRow(kb, true), verifRow(kc, false)
	v.Reach("rows")
	// each comparator call is summarised into one term (all its paths merged)
	aa := v.PureBool(func() bool { return less(&a, &a) })
	ab := v.PureBool(func() bool { return less(&a, &b) })
	ba := v.PureBool(func() bool { return less(&b, &a) })
	bc := v.PureBool(func() bool { return less(&b, &c) })
	ac := v.PureBool(func() bool { return less(&a, &c) })
	same := v.PureBool(func() bool { return verifSameKey(&a, &b) })
	v.Assert(!aa, "irreflexive")
	v.Assert(!(ab && ba), "asymmetric")
	v.Assert(same || ab || ba, "total: two rows with different keys are ordered one way or the other")
	v.Assert(!(ab && bc) || ac, "transitive")
}

// VerifC14_SortKey: the primary order is the selected key in the selected direction.
func VerifC14_SortKey() {
	so := verifSorts[v.Concretize(v.Choice(len(verifSorts)))]
	dir := verifDir()
	asc := v.Concretize(v.Choice(2)) == 1
	less := By(so, dir, asc)
	a, b := verifRow(0, false), verifRow(0, true)
	key := func(r *Row) uint64 {
		switch so {
		case SortPackets:
			switch dir {
			case types.DirectionIn:
				return r.Counters.PacketsRcvd
			case types.DirectionOut:
				return r.Counters.PacketsSent
			}
			return r.Counters.PacketsRcvd + r.Counters.PacketsSent
		case SortTraffic:
			switch dir {
			case types.DirectionIn:
				return r.Counters.BytesRcvd
			case types.DirectionOut:
				return r.Counters.BytesSent
			}
			return r.Counters.BytesRcvd + r.Counters.BytesSent
		}
		return uint64(r.Labels.Timestamp.Unix())
	}
	ka, kb := key(&a), key(&b)
	v.Reach("keys")
	lab := v.PureBool(func() bool { return less(&a, &b) })
	v.Assert(ka == kb || lab == ((ka < kb) == asc), "rows with different sort keys are ordered by the key in the selected direction")
}
