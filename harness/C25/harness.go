package goDB

import (
	"context"

	"github.com/els0r/goProbe/v4/pkg/goDB/info"
	"github.com/els0r/goProbe/v4/pkg/goDB/storage/gpfile"
	v "github.com/els0r/goProbe/v4/zz_verif"
)

const (
	verifC25Dst   = "/dst"
	verifC25Iface = "/dst/eth0"
	verifC25Month = "/dst/eth0/2023/11"
	verifC25Stage = "/dst/.gpdb-merge-stage-1"
	verifC25Day   = int64(1700006400)
)

func verifC25Crashable(f func()) (crashed bool) {
	defer func() {
		if r := recover(); r != nil {
			if _, ok := r.(v.Crash); ok {
				crashed = true
				return
			}
			panic(r)
		}
	}()
	f()
	return false
}

// the day directories a query (walkDB) finds for the day, by the content marker of their metadata file
func verifC25DaysSeen() (n int, old, merged bool) {
	for _, e := range v.ListDir(verifC25Month) {
		if !e.Dir {
			continue
		}
		ts, _, err := gpfile.ExtractTimestampMetadataSuffix(e.N)
		v.Assert(err == nil, "every directory of the month parses as a day directory")
		if ts != verifC25Day {
			continue
		}
		n++
		switch string(v.FileBytes(verifC25Month + "/" + e.N + "/.blockmeta")) {
		case "old":
			old = true
		case "new":
			merged = true
		}
	}
	return
}

// VerifC25_Commit: the commit of a staged (merged) day into the destination, killed at any system-call
// boundary, leaves the day either as it was before or merged - one directory for the day, never two and
// never none -, and what it leaves behind is mistaken neither for a day nor for an interface by queries or
// by a later merge.
func VerifC25_Commit() {
	v.ResetTree()
	staged := verifC25Stage + "/eth0/2023/11/1700006400_new"
	v.Assert(v.MkdirAll(staged, 0o755) == nil, "setup")
	v.PutFile(staged+"/.blockmeta", []byte("new"))
	var existing *dayDescriptor
	hasExisting := v.Bool()
	if hasExisting {
		p := verifC25Month + "/1700006400_old"
		v.Assert(v.MkdirAll(p, 0o755) == nil, "setup")
		v.PutFile(p+"/.blockmeta", []byte("old"))
		v.PutFile(p+"/sip.gpf", []byte("x"))
		existing = &dayDescriptor{Timestamp: verifC25Day, Suffix: "old", DirName: "1700006400_old", Path: p}
	} else {
		v.Assert(v.MkdirAll(verifC25Iface, 0o755) == nil, "setup")
	}
	var err error
	v.ArmCrash()
	crashed := verifC25Crashable(func() { err = commitStagedDay(staged, verifC25Iface, verifC25Day, existing) })
	v.Disarm()
	v.Revive()
	v.Reach("committed or killed")

	n, old, merged := verifC25DaysSeen()
	if !crashed {
		v.Assert(err == nil, "an undisturbed commit succeeds")
		v.Assert(n == 1 && merged && !old, "after a completed commit the day is the merged one")
		return
	}
	if hasExisting {
		v.Assert(n >= 1, "an interrupted merge never hides a day (neither the previous nor the merged data visible)")
		v.Assert(n <= 1, "an interrupted merge never duplicates a day (previous and merged data both visible)")
	} else {
		v.Assert(n <= 1, "an interrupted merge never duplicates a day (previous and merged data both visible)")
	}
	v.Assert(!(old && merged), "an interrupted merge never shows previous and merged data together")
	// a later merge lists the destination's days through the real listInterfaceDays
	days, lerr := listInterfaceDays(verifC25Iface)
	v.Assert(lerr == nil, "a later merge can list the destination after an interrupted one")
	if lerr == nil && n == 1 {
		d, ok := days[verifC25Day]
		v.Assert(ok && (d.DirName == "1700006400_old" || d.DirName == "1700006400_new"), "a later merge finds the day under its own directory name, not under a leftover")
	}
}

// VerifC25_Leftovers: the staging directory an interrupted merge leaves in the destination is not listed as
// an interface.
func VerifC25_Leftovers() {
	v.ResetTree()
	v.Assert(v.MkdirAll(verifC25Month+"/1700006400_old", 0o755) == nil, "setup")
	v.Assert(v.MkdirAll(verifC25Stage+"/eth0/2023/11/1700006400_new", 0o755) == nil, "setup")
	ifaces, err := info.GetInterfaces(verifC25Dst)
	v.Reach("listed")
	v.Assert(err == nil, "listing interfaces succeeds")
	v.Assert(len(ifaces) == 1 && ifaces[0] == "eth0", "a leftover staging directory of an interrupted merge is not listed as an interface")
}

// VerifC25_FreshStage: a merge that runs after an interrupted one stages its work in a fresh, empty
// directory - never on top of what the interrupted merge left in the destination.
func VerifC25_FreshStage() {
	v.ResetTree()
	for _, p := range []string{
		"/src/eth0/2023/11/1700006400_a",
		"/dst/eth0/2023/11/1700006400_b",
		"/dst/.gpdb-merge-stage-1/eth0/2023/11/1700006400_x",    // left by an interrupted merge
		"/dst/.gpdb-merge-stage-work/eth0/2023/11/1700006400_x", // ditto, under a fixed name
	} {
		v.Assert(v.MkdirAll(p, 0o755) == nil, "setup")
	}
	verifC24Summary = true
	verifC24Copies, verifC24Rebuilds, verifC24Commits, verifC24StageDirty = 0, 0, 0, false
	_, err := MergeDatabases(context.Background(), MergeOptions{SourcePath: "/src", DestinationPath: "/dst", Overwrite: v.Bool()})
	verifC24Summary = false
	v.Reach("merged after an interrupted merge")
	v.Assert(err == nil, "the merge succeeds")
	v.Assert(!verifC24StageDirty, "a merge stages its work in a fresh directory, not in what an interrupted merge left behind")
}
