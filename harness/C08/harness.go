package goDB

import (
	"github.com/els0r/goProbe/v4/pkg/goDB/conditions/node"
	"github.com/els0r/goProbe/v4/pkg/goDB/storage"
	"github.com/els0r/goProbe/v4/pkg/goDB/storage/gpfile"
	"github.com/els0r/goProbe/v4/pkg/types"
	"github.com/els0r/goProbe/v4/pkg/types/hashmap"
	v "github.com/els0r/goProbe/v4/zz_verif"
)

// ---- L4: IP-version pruning is sound ---------------------------------------------------------------

func verifC08AddrLeaf(attr string, v6 bool, tag string) (node.Node, []byte) {
	n := 4
	text := tag
	if v6 {
		n = 16
		text = tag + "::"
	}
	ip := v.Bytes(n)
	v.SetIP(text, ip)
	l, err := node.VerifLeaf(attr, "=", text)
	v.Assert(err == nil, "leaf instrumented")
	return l, ip
}

func verifC08PortLeaf(tag string) node.Node {
	v.SetNum(tag, int64(v.U16()))
	l, err := node.VerifLeaf("dport", "=", tag)
	v.Assert(err == nil, "leaf instrumented")
	return l
}

func verifC08Key() (types.Key, bool) {
	if v.Bool() {
		return types.Key(v.Bytes(types.KeyWidthIPv4)), true
	}
	return types.Key(v.Bytes(types.KeyWidthIPv6)), false
}

func verifC08Scanned(q *Query, isV4 bool) bool {
	// readBlocksAndEvaluate visits only IPv6 entries for IPVersionV6, only IPv4 entries for IPVersionV4
	if q.ipVersion == types.IPVersionV6 {
		return !isV4
	}
	if q.ipVersion == types.IPVersionV4 {
		return isV4
	}
	return true
}

// VerifC08_Pruning: whenever the condition is true for a flow, the flow's IP family is one the block scan
// visits. Shapes: a single address comparison; conjunctions; disjunctions of address comparisons (same or
// different attributes, same or different families).
func VerifC08_Pruning() {
	attrs := []string{"sip", "dip"}
	var cond node.Node
	switch v.Concretize(v.Choice(4)) {
	case 0:
		cond, _ = verifC08AddrLeaf(attrs[v.Concretize(v.Choice(2))], v.Bool(), "A")
	case 1: // address & port
		l, _ := verifC08AddrLeaf(attrs[v.Concretize(v.Choice(2))], v.Bool(), "A")
		cond = node.VerifAnd(l, verifC08PortLeaf("P"))
	case 2: // address & address
		l1, _ := verifC08AddrLeaf("sip", v.Bool(), "A")
		l2, _ := verifC08AddrLeaf("dip", v.Bool(), "B")
		cond = node.VerifAnd(l1, l2)
	default: // address | address (same or different attribute / family)
		l1, _ := verifC08AddrLeaf("sip", v.Bool(), "A")
		l2, _ := verifC08AddrLeaf(attrs[v.Concretize(v.Choice(2))], v.Bool(), "B")
		cond = node.VerifOr(l1, l2)
	}
	q := NewQuery(nil, cond, types.LabelSelector{})
	k, isV4 := verifC08Key()
	v.Reach("query-built")
	if cond.Evaluate(k) {
		v.Reach("selected")
		v.Assert(verifC08Scanned(q, isV4), "a flow the condition selects belongs to an IP family the scan visits")
	}
}

// VerifC08_PruningMixed: the shapes for which the attribute-wise IP-version merge is NOT sound on the pinned
// tree (address comparison OR-ed with a non-address comparison; negated address comparison). Kept separate
// so that the known finding has its own signature.
func VerifC08_PruningMixed() {
	var cond node.Node
	if v.Bool() {
		l, _ := verifC08AddrLeaf("sip", v.Bool(), "A")
		cond = node.VerifOr(l, verifC08PortLeaf("P"))
	} else {
		n := 4
		text := "A"
		if v.Bool() {
			n, text = 16, "A::"
		}
		v.SetIP(text, v.Bytes(n))
		l, err := node.VerifLeaf("sip", "!=", text)
		v.Assert(err == nil, "leaf instrumented")
		cond = l
	}
	q := NewQuery(nil, cond, types.LabelSelector{})
	k, isV4 := verifC08Key()
	if cond.Evaluate(k) {
		v.Reach("selected")
		v.Assert(verifC08Scanned(q, isV4), "a flow selected by 'address | other' or 'address != v' belongs to a scanned IP family")
	}
}

// ---- L5: population of result keys, comparison keys and counters -----------------------------------------

type verifC08Entry struct {
	v4       bool
	sip, dip []byte
	dport    [2]byte
	proto    byte
	c        types.Counters
}

func verifC08Pack8(vals []uint64) []byte {
	b := make([]byte, 1+8*len(vals))
	b[0] = 8
	for i, x := range vals {
		for k := 0; k < 8; k++ {
			b[1+8*i+k] = byte(x >> (8 * k))
		}
	}
	return b
}

// VerifC08_Population: one block with n4 IPv4 and n6 IPv6 flows; for every attribute selection (with or
// without the time label) and a port condition, the result map is exactly the direct aggregation of the
// entries that satisfy the condition, grouped by the selected attributes, with all four counters summed.
func VerifC08_Population() {
	const day = int64(1700006400)
	ts := day + 300
	n4, n6 := v.Param("N4", 1), v.Param("N6", 1)
	var es []verifC08Entry
	for i := 0; i < n4+n6; i++ {
		e := verifC08Entry{v4: i < n4, proto: v.U8(), c: types.Counters{BytesRcvd: v.U64(), BytesSent: v.U64(), PacketsRcvd: v.U64(), PacketsSent: v.U64()}}
		w := 16
		if e.v4 {
			w = 4
		}
		e.sip, e.dip = v.Bytes(w), v.Bytes(w)
		copy(e.dport[:], v.Bytes(2))
		es = append(es, e)
	}
	md := gpfile.VerifNewMetadata()
	for c := 0; c < int(types.ColIdxCount); c++ {
		md.BlockMetadata[c].AddBlock(ts, storage.Block{Len: 9, RawLen: 9})
	}
	md.BlockTraffic = append(md.BlockTraffic, gpfile.TrafficMetadata{NumV4Entries: uint64(n4), NumV6Entries: uint64(n6)})
	dir := gpfile.VerifNewDir(md)
	gpfile.VerifDirs, gpfile.VerifDirTimes = []*gpfile.GPDir{dir}, []int64{day}
	gpfile.VerifReadBlock = func(d *gpfile.GPDir, colIdx types.ColumnIndex, blockIdx int) ([]byte, error) {
		var out []byte
		var cs []uint64
		for _, e := range es {
			switch colIdx {
			case types.SIPColIdx:
				out = append(out, e.sip...)
			case types.DIPColIdx:
				out = append(out, e.dip...)
			case types.DportColIdx:
				out = append(out, e.dport[0], e.dport[1])
			case types.ProtoColIdx:
				out = append(out, e.proto)
			case types.BytesRcvdColIdx:
				cs = append(cs, e.c.BytesRcvd)
			case types.BytesSentColIdx:
				cs = append(cs, e.c.BytesSent)
			case types.PacketsRcvdColIdx:
				cs = append(cs, e.c.PacketsRcvd)
			case types.PacketsSentColIdx:
				cs = append(cs, e.c.PacketsSent)
			}
		}
		if colIdx.IsCounterCol() {
			return verifC08Pack8(cs), nil
		}
		return out, nil
	}
	// attribute selection and condition
	var attrs []types.Attribute
	selSIP, selDIP, selDport, selProto := v.Bool(), v.Bool(), v.Bool(), v.Bool()
	if selSIP {
		attrs = append(attrs, types.SIPAttribute{})
	}
	if selDIP {
		attrs = append(attrs, types.DIPAttribute{})
	}
	if selDport {
		attrs = append(attrs, types.DportAttribute{})
	}
	if selProto {
		attrs = append(attrs, types.ProtoAttribute{})
	}
	withTime := v.Bool()
	var cond node.Node
	port := v.U16()
	withCond := v.Bool()
	if withCond {
		v.SetNum("P", int64(port))
		l, err := node.VerifLeaf("dport", "=", "P")
		v.Assert(err == nil, "condition instrumented")
		cond = l
	}
	q := NewQuery(attrs, cond, types.LabelSelector{Timestamp: withTime})
	w, err := NewDBWorkManager(q, "/db", "eth0", 1)
	v.Assert(err == nil, "work manager created")
	w.tFirstCovered, w.tLastCovered = day, day+86400
	res := hashmap.NewAggFlowMapWithMetadata()
	_, err = w.readBlocksAndEvaluate(dir, nil, &res)
	v.Assert(err == nil, "block evaluation succeeds")
	v.Reach("evaluated")
	// reference aggregation
	useV6Map := selSIP || selDIP
	refKey := func(e *verifC08Entry) (types.ExtendedKey, bool) {
		isV4 := e.v4 || !useV6Map
		var k types.Key
		if isV4 {
			k = types.NewEmptyV4Key()
		} else {
			k = types.NewEmptyV6Key()
		}
		ek := k.ExtendEmpty()
		if withTime {
			ek = k.Extend(ts)
		}
		if selSIP {
			ek.PutSIP(e.sip)
		}
		if selDIP {
			ek.PutDIPV(e.dip, isV4)
		}
		if selDport {
			ek.PutDportV(e.dport[:], isV4)
		}
		if selProto {
			ek.PutProtoV(e.proto, isV4)
		}
		return ek, isV4
	}
	matches := func(e *verifC08Entry) bool {
		return !withCond || (uint16(e.dport[0])<<8|uint16(e.dport[1])) == port
	}
	total := 0
	for i := range es {
		if !matches(&es[i]) {
			continue
		}
		ki, v4i := refKey(&es[i])
		var want types.Counters
		first := true
		for j := range es {
			if !matches(&es[j]) {
				continue
			}
			kj, v4j := refKey(&es[j])
			if v4i == v4j && v.EqBytes(ki, kj) {
				want.Add(es[j].c)
				if j < i {
					first = false
				}
			}
		}
		m := res.SecondaryMap
		if v4i {
			m = res.PrimaryMap
		}
		got, ok := m.Get(ki)
		v.Assert(ok, "every flow satisfying the condition is in the result under its selected attributes")
		v.Assert(got == want, "counters are summed per group")
		if first {
			total++
		}
	}
	v.Assert(res.PrimaryMap.Len()+res.SecondaryMap.Len() == total, "nothing else is in the result")
}

// VerifC08_Direction: the direction predicates applied to summed counters mean what they say.
func VerifC08_Direction() {
	c := types.Counters{BytesRcvd: v.U64(), BytesSent: v.U64(), PacketsRcvd: v.U64(), PacketsSent: v.U64()}
	in, out := c.PacketsRcvd > 0, c.PacketsSent > 0
	v.Reach("predicates")
	v.Assert(c.IsOnlyInbound() == (in && !out), "in: received only")
	v.Assert(c.IsOnlyOutbound() == (out && !in), "out: sent only")
	v.Assert(c.IsBidirectional() == (in && out), "bi: both directions")
	v.Assert(c.IsUnidirectional() == (in != out), "uni: exactly one direction")
}
