package gpfile

import (
	"github.com/els0r/goProbe/v4/pkg/goDB/encoder/encoders"
	"github.com/els0r/goProbe/v4/pkg/types"
	v "github.com/els0r/goProbe/v4/zz_verif"
)

const verifDir = "/db/eth0/2023/11/1700006400"

type verifBlk struct {
	ts      int64
	data    [2][]byte // payload of the two data-carrying columns (the other columns get empty blocks)
	traffic TrafficMetadata
	counts  types.Counters
}

var verifCols = [2]types.ColumnIndex{types.SIPColIdx, types.BytesRcvdColIdx}

func verifC01Dir(md *Metadata, mode int, enc encoders.Type) *GPDir {
	return &GPDir{isOpen: true, accessMode: mode, Metadata: md, dirPath: verifDir, permissions: defaultPermissions,
		options: []Option{WithEncoderTypeLevel(enc, 0)}}
}

// close the column files of a write session (GPDir.Close additionally commits the metadata file: C03/C04)
func verifC01CloseFiles(d *GPDir) {
	for i := range d.gpFiles {
		if d.gpFiles[i] != nil {
			v.Assert(d.gpFiles[i].Close() == nil, "closing a column file succeeds")
			d.gpFiles[i] = nil
		}
	}
}

// payload length: fully symbolic, or (LENS=1) one of a few concrete lengths on both sides of the write buffer
func verifC01Len(maxLen int) int {
	if v.Param("LENS", 0) == 1 {
		return v.Concretize(v.OneOf(0, 3, 9, maxLen))
	}
	if v.Param("LENS", 0) == 2 {
		return maxLen
	}
	return v.IntIn(0, maxLen)
}

// VerifC01_Blocks: blocks written over separate open/write/close sessions (any payload, any compressed size
// the library may produce, stale bytes beyond the committed offset left by a killed writer) are read back
// byte for byte under their timestamps; per-block and per-day summaries equal what was written; a rejected
// write changes nothing.
func VerifC01_Blocks() {
	encOf := func(k int) encoders.Type {
		switch k {
		case 0:
			return encoders.EncoderTypeNull
		case 1:
			return encoders.EncoderTypeLZ4
		}
		return encoders.EncoderTypeZSTD
	}
	enc := encOf(v.Param("ENC", 0))
	enc2 := encOf(v.Param("ENC2", v.Param("ENC", 0))) // encoder of the later sessions and of the reader
	nSessions, perSession := v.Param("SESSIONS", 2), v.Param("BLOCKS", 1)
	maxLen := v.Param("MAXLEN", 12)
	v.ResetFS()
	ncols := v.Param("NCOLS", 1)
	for _, c := range verifCols[:ncols] {
		// whatever an earlier, killed writer left in the column file (nothing committed yet)
		v.PutFile(verifDir+"/"+types.ColumnFileNames[c]+FileSuffix, v.Bytes(v.IntIn(0, v.Param("TAIL", 6))))
	}
	md := newMetadata()
	var blocks []verifBlk
	var wantTraffic TrafficMetadata
	var wantCounts types.Counters
	for s := 0; s < nSessions; s++ {
		senc := enc
		if s > 0 {
			senc = enc2
		}
		d := verifC01Dir(md, ModeWrite, senc)
		for b := 0; b < perSession; b++ {
			blk := verifBlk{ts: v.I64(),
				traffic: TrafficMetadata{NumV4Entries: v.U64(), NumV6Entries: v.U64(), NumDrops: v.U64()},
				counts:  types.Counters{BytesRcvd: v.U64(), BytesSent: v.U64(), PacketsRcvd: v.U64(), PacketsSent: v.U64()}}
			for _, o := range blocks {
				v.Assume(o.ts != blk.ts)
			}
			var data [types.ColIdxCount][]byte
			for i, c := range verifCols[:ncols] {
				blk.data[i] = v.Bytes(verifC01Len(maxLen))
				data[c] = blk.data[i]
			}
			err := d.WriteBlocks(blk.ts, blk.traffic, blk.counts, data)
			v.Assert(err == nil, "writing a block with a new timestamp succeeds")
			blocks = append(blocks, blk)
			wantTraffic = wantTraffic.Add(blk.traffic)
			wantCounts.Add(blk.counts)
		}
		if s == 0 && v.Bool() {
			// a write for an already stored timestamp is rejected and must not change anything
			var data [types.ColIdxCount][]byte
			data[verifCols[0]] = v.Bytes(3)
			err := d.WriteBlocks(blocks[0].ts, TrafficMetadata{NumV4Entries: 1, NumDrops: 1}, types.Counters{BytesRcvd: 1}, data)
			v.Assert(err != nil, "a duplicate timestamp is rejected")
			v.Reach("rejected-write")
		}
		verifC01CloseFiles(d)
	}
	v.Reach("written")
	// summaries
	v.Assert(md.Traffic == wantTraffic, "per-day flow and drop totals equal the sum of the written blocks")
	v.Assert(md.Counts == wantCounts, "per-day counter totals equal the sum of the written blocks")
	v.Assert(len(md.BlockTraffic) == len(blocks), "one per-block summary per written block")
	for i := range blocks {
		v.Assert(md.BlockTraffic[i] == blocks[i].traffic, "per-block summary as written")
	}
	// read back (a fresh reader on the same metadata, as after reopening the day)
	r := verifC01Dir(md, ModeRead, enc2)
	// read in written order, in reverse, or every second block (seek / no-seek paths)
	order := v.Concretize(v.Choice(3))
	for k := range blocks {
		i := k
		if order == 1 {
			i = len(blocks) - 1 - k
		}
		if order == 2 && k%2 == 1 {
			continue
		}
		for ci, c := range verifCols[:ncols] {
			v.Assert(md.BlockMetadata[c].BlockList[i].Timestamp == blocks[i].ts, "block stored under its timestamp")
			got, err := r.ReadBlockAtIndex(c, i)
			v.Assert(err == nil, "reading a written block succeeds")
			v.Assert(v.EqBytes(got, blocks[i].data[ci]), "block read back byte for byte")
		}
	}
	v.Reach("read-back")
}
