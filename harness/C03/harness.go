package gpfile

import (
	"github.com/els0r/goProbe/v4/pkg/goDB/encoder/encoders"
	"github.com/els0r/goProbe/v4/pkg/goDB/storage"
	"github.com/els0r/goProbe/v4/pkg/types"
	v "github.com/els0r/goProbe/v4/zz_verif"
)

const verifMax32 = uint64(1<<32 - 1)

// VerifC03_RoundTrip: for every accepted write history of N blocks (distinct timestamps in any order,
// arbitrary 64-bit counts) Marshal either reports an error or the metadata read back by Unmarshal is
// identical; it reports an error exactly when the format cannot hold a value.
func VerifC03_RoundTrip() {
	n := v.Param("NBLOCKS", 2)
	d := &GPDir{Metadata: newMetadata()}
	ts := make([]int64, 0, 4)
	tms := make([]TrafficMetadata, 0, 4)
	representable := true
	for i := 0; i < n; i++ {
		t := v.I64()
		for j := 0; j < i; j++ {
			v.Assume(ts[j] != t) // writeBlock rejects a timestamp that is already present
		}
		ts = append(ts, t)
		tm := TrafficMetadata{NumV4Entries: v.U64(), NumV6Entries: v.U64(), NumDrops: v.U64()}
		tms = append(tms, tm)
		cnt := types.Counters{BytesRcvd: v.U64(), BytesSent: v.U64(), PacketsRcvd: v.U64(), PacketsSent: v.U64()}
		for c := 0; c < int(types.ColIdxCount); c++ {
			h := d.BlockMetadata[c]
			blk := storage.Block{Offset: h.CurrentOffset, Len: v.U32(), RawLen: v.U32(), EncoderType: encoders.Type(v.U8())}
			h.AddBlock(t, blk) // as GPFile.writeBlock does
			h.CurrentOffset += uint64(blk.Len)
		}
		// as GPDir.WriteBlocks does
		d.Metadata.BlockTraffic = append(d.Metadata.BlockTraffic, tm)
		d.Metadata.Traffic = d.Metadata.Traffic.Add(tm)
		d.Metadata.Counts.Add(cnt)
		if tm.NumV4Entries > verifMax32 || tm.NumV6Entries > verifMax32 || tm.NumDrops > verifMax32 {
			representable = false
		}
		if i > 0 {
			// exact 64-bit test of "0 <= ts[i]-ts[i-1] <= 2^32-1" without overflow
			if t < ts[i-1] || uint64(t)-uint64(ts[i-1]) > verifMax32 {
				representable = false
			}
		}
	}
	want := *d.Metadata
	f := v.NewMemRWSC(nil)
	err := d.Marshal(f)
	if err != nil {
		v.Reach("rejected")
		v.Assert(!representable, "a history the format can hold is not rejected")
		return
	}
	v.Reach("stored")
	v.Assert(representable, "a value the format cannot hold is rejected, not stored in altered form")
	f.Seek(0, 0)
	d2 := &GPDir{}
	err = d2.Unmarshal(f)
	v.Assert(err == nil, "metadata written by Marshal is readable")
	v.Assert(d2.Version == want.Version, "version preserved")
	v.Assert(d2.Traffic == want.Traffic, "day traffic totals preserved")
	v.Assert(d2.Counts == want.Counts, "day counter totals preserved")
	v.Assert(len(d2.BlockTraffic) == n, "number of blocks preserved")
	for i := 0; i < n; i++ {
		v.Assert(d2.BlockTraffic[i] == tms[i], "per-block flow and drop counts preserved")
	}
	for c := 0; c < int(types.ColIdxCount); c++ {
		h, w := d2.BlockMetadata[c], want.BlockMetadata[c]
		v.Assert(h.CurrentOffset == w.CurrentOffset, "column end offset preserved")
		v.Assert(len(h.BlockList) == n, "block list length preserved")
		for i := 0; i < n; i++ {
			v.Assert(h.BlockList[i].Timestamp == ts[i], "block timestamps preserved in order")
			v.Assert(h.BlockList[i].Block == w.BlockList[i].Block, "block offset/length/encoder preserved")
		}
	}
}

// VerifC03_Robust: Unmarshal on an arbitrary byte string never violates a bounds/allocation obligation and
// reports an error whenever the file is shorter than the size its own block count requires.
func VerifC03_Robust() {
	l := v.IntIn(0, v.Param("MAXLEN", 327))
	data := v.Bytes(l)
	f := v.NewMemRWSC(data)
	d := &GPDir{}
	err := d.Unmarshal(f)
	if l < 144 {
		v.Reach("below-minimum")
		v.Assert(err != nil, "file below the minimum size is reported as an error")
		return
	}
	nBlocks := uint64(data[8])<<56 | uint64(data[9])<<48 | uint64(data[10])<<40 | uint64(data[11])<<32 |
		uint64(data[12])<<24 | uint64(data[13])<<16 | uint64(data[14])<<8 | uint64(data[15])
	if nBlocks > 1000 || uint64(l) < 144+88*nBlocks {
		v.Reach("truncated")
		v.Assert(err != nil, "file shorter than its block count requires is reported as an error")
		return
	}
	v.Reach("complete")
	v.Assert(err == nil, "a complete file is accepted")
	v.Assert(uint64(len(d.BlockTraffic)) == nBlocks, "block count as stored")
}

// VerifC03_Suffix: the directory-name summary written by MarshalString is read back by UnmarshalString.
func VerifC03_Suffix() {
	m := newMetadata()
	lim := uint64(v.Param("MAXVAL", 3843))
	vals := [7]uint64{}
	for i := range vals {
		vals[i] = v.U64()
		v.Assume(vals[i] <= lim)
	}
	m.Traffic.NumV4Entries, m.Traffic.NumV6Entries, m.Traffic.NumDrops = vals[0], vals[1], vals[2]
	m.Counts.BytesRcvd, m.Counts.BytesSent, m.Counts.PacketsRcvd, m.Counts.PacketsSent = vals[3], vals[4], vals[5], vals[6]
	s := m.MarshalString()
	v.Assert(len(s) > 0 && s[0] == '_', "summary starts with the underscore delimiter")
	m2 := newMetadata()
	err := m2.UnmarshalString(s[1:])
	v.Reach("decoded")
	v.Assert(err == nil, "summary written by MarshalString is accepted")
	v.Assert(m2.Traffic == m.Traffic, "traffic summary preserved")
	v.Assert(m2.Counts == m.Counts, "counter summary preserved")
}
