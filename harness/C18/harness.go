package hashmap

import (
	v "github.com/els0r/goProbe/v4/zz_verif"
)

const verifKeyLen = 11 // width of an IPv4 flow key

// association-list model: ordinary map semantics with counters summed per key
type verifModel struct {
	keys [][]byte
	vals []Val
}

func verifKeyEq(a, b []byte) bool { return v.EqBytes(a, b) }

func (md *verifModel) find(k []byte) int {
	for i := range md.keys {
		if verifKeyEq(md.keys[i], k) {
			return i
		}
	}
	return -1
}

func (md *verifModel) set(k []byte, val Val) {
	if i := md.find(k); i >= 0 {
		md.vals[i] = val
		return
	}
	kc := make([]byte, len(k))
	copy(kc, k)
	md.keys = append(md.keys, kc)
	md.vals = append(md.vals, val)
}

func (md *verifModel) add(k []byte, val Val) {
	if i := md.find(k); i >= 0 {
		md.vals[i].BytesRcvd += val.BytesRcvd
		md.vals[i].BytesSent += val.BytesSent
		md.vals[i].PacketsRcvd += val.PacketsRcvd
		md.vals[i].PacketsSent += val.PacketsSent
		return
	}
	md.set(k, val)
}

func verifVal() Val {
	return Val{BytesRcvd: v.U64(), BytesSent: v.U64(), PacketsRcvd: v.U64(), PacketsSent: v.U64()}
}

// verifAgree checks size, lookups and one full iteration of m against the model.
func verifAgree(m *Map, md *verifModel, what string) {
	v.Assert(m.Len() == len(md.keys), what+": Len equals the number of distinct keys")
	for i := range md.keys {
		got, ok := m.Get(md.keys[i])
		v.Assert(ok, what+": Get finds every inserted key")
		v.Assert(got == md.vals[i], what+": Get returns the summed counters")
	}
	seen := make([]bool, len(md.keys))
	n := 0
	for it := m.Iter(); it.Next(); {
		n++
		v.Assert(n <= len(md.keys), what+": iteration yields no more entries than the map holds")
		i := md.find(it.Key())
		v.Assert(i >= 0, what+": iteration yields only inserted keys")
		v.Assert(!seen[i], what+": iteration yields every entry at most once")
		seen[i] = true
		v.Assert(it.Val() == md.vals[i], what+": iteration yields the summed counters")
	}
	v.Assert(n == len(md.keys), what+": iteration yields every entry")
}

// VerifC18_Ops: short sequences of Set / SetOrUpdate on fully symbolic keys (equal or not) with fully
// symbolic hashes (colliding or not) agree with an ordinary map.
func VerifC18_Ops() {
	nk := v.Param("NK", 3)
	nops := v.Param("NOPS", 4)
	keys := make([][]byte, 0, 4)
	for i := 0; i < nk; i++ {
		keys = append(keys, v.Bytes(verifKeyLen))
	}
	m := New()
	md := &verifModel{}
	for o := 0; o < nops; o++ {
		ki := v.Concretize(v.Choice(nk))
		val := verifVal()
		if v.Bool() {
			m.Set(keys[ki], val)
			md.set(keys[ki], val)
		} else {
			m.SetOrUpdate(keys[ki], val.BytesRcvd, val.BytesSent, val.PacketsRcvd, val.PacketsSent)
			md.add(keys[ki], val)
		}
	}
	v.Reach("ops-done")
	verifAgree(m, md, "after ops")
	// a key that was never inserted is not found
	other := v.Bytes(verifKeyLen)
	if md.find(other) < 0 {
		_, ok := m.Get(other)
		v.Assert(!ok, "Get misses a key that was never inserted")
	}
}

// VerifC18_KeyCopy: the map keeps its own copy of the key.
func VerifC18_KeyCopy() {
	k := v.Bytes(verifKeyLen)
	orig := make([]byte, verifKeyLen)
	copy(orig, k)
	val := verifVal()
	m := New()
	if v.Bool() {
		m.Set(k, val)
	} else {
		m.SetOrUpdate(k, val.BytesRcvd, val.BytesSent, val.PacketsRcvd, val.PacketsSent)
	}
	copy(k, v.Bytes(verifKeyLen)) // caller reuses its buffer
	v.Reach("buffer-reused")
	got, ok := m.Get(orig)
	v.Assert(ok && got == val, "entry still found under the original key after the caller's buffer changed")
	if !verifKeyEq(k, orig) {
		_, ok2 := m.Get(k)
		v.Assert(!ok2, "the changed buffer does not alias the stored key")
	}
	for it := m.Iter(); it.Next(); {
		v.Assert(verifKeyEq(it.Key(), orig), "iteration yields the original key bytes")
	}
}

// verifGrowKey builds key i (distinct first byte, rest symbolic) and pins its hash: distinct top byte,
// low three bits concrete for i < N-SYM (deterministic pattern) and symbolic for the last SYM keys.
func verifGrowKey(i, n, sym, variant int) []byte {
	k := v.Bytes(verifKeyLen)
	k[0] = byte(i)
	if i < n-sym {
		v.SetHash(k, uint64(16+i)<<56|uint64((i*5+variant*3+1)&7))
	} else {
		h := v.HashSeed(k, 0)
		v.Assume(h>>56 == uint64(16+i))
	}
	return k
}

// VerifC18_Grow: N additive inserts of distinct keys (plus repeated updates) driving the table through its
// growth stages; after every insert from the 8th on, size, lookups and a full iteration agree with the model.
func VerifC18_Grow() {
	n := v.Param("N", 14)
	sym := v.Param("SYM", 3)
	variant := v.Param("VAR", 0)
	m := New()
	md := &verifModel{}
	for i := 0; i < n; i++ {
		k := verifGrowKey(i, n, sym, variant)
		val := verifVal()
		m.SetOrUpdate(k, val.BytesRcvd, val.BytesSent, val.PacketsRcvd, val.PacketsSent)
		md.add(k, val)
		if i%4 == 3 { // additive update of an earlier key while the table may be growing
			j := i / 2
			val2 := verifVal()
			m.SetOrUpdate(md.keys[j], val2.BytesRcvd, val2.BytesSent, val2.PacketsRcvd, val2.PacketsSent)
			md.add(md.keys[j], val2)
		}
		if i >= 7 {
			if m.isGrowing() {
				v.Reach("checked-while-growing")
			}
			verifAgree(m, md, "growth stage")
		}
	}
	v.Reach("grown")
}

// VerifC18_Merge: merging a (possibly growing) source into a destination that shares some keys gives the
// per-key sums; the source is unchanged.
func VerifC18_Merge() {
	n := v.Param("N", 14)
	sym := v.Param("SYM", 2)
	variant := v.Param("VAR", 0)
	src := New()
	smd := &verifModel{}
	dst := New()
	dmd := &verifModel{}
	for i := 0; i < n; i++ {
		k := verifGrowKey(i, n, sym, variant)
		val := verifVal()
		src.SetOrUpdate(k, val.BytesRcvd, val.BytesSent, val.PacketsRcvd, val.PacketsSent)
		smd.add(k, val)
		if i%3 == 0 { // every third key is also in the destination
			dv := verifVal()
			dst.SetOrUpdate(k, dv.BytesRcvd, dv.BytesSent, dv.PacketsRcvd, dv.PacketsSent)
			dmd.add(k, dv)
		}
	}
	if src.isGrowing() {
		v.Reach("source-growing")
	}
	dst.Merge(src)
	for i := range smd.keys {
		dmd.add(smd.keys[i], smd.vals[i])
	}
	v.Reach("merged")
	verifAgree(dst, dmd, "merged destination")
	verifAgree(src, smd, "source after merge")
}

// VerifC18_EvacMark: one step of the incremental-grow bookkeeping from an arbitrary point of a grow of a
// large table (the look-ahead of advanceEvacuationMark is bounded by a window, so tables larger than the
// window behave differently from the small ones the other harnesses reach): the old bucket array is released
// only when every old bucket has been evacuated, and the mark never passes an unevacuated bucket.
// The state is built directly (no call history): NB old buckets, the mark at a chosen position, the buckets
// in the look-ahead window evacuated, and symbolic evacuation flags on the buckets that decide the outcome
// (the bucket under the new mark, the first bucket past the window, the last bucket of the array).
func VerifC18_EvacMark() {
	nb := v.Param("NB", 4096)
	starts := []int{0, nb/2 - 1, nb - 1026, nb - 1025, nb - 2}
	s := starts[v.Concretize(v.Choice(len(starts)))]
	old := make([]bucket, nb)
	for i := range old {
		old[i].topHash[0] = evacuatedX
	}
	sym := []int{s + 1, s + 1 + 1024, nb - 1}
	for _, p := range sym {
		if p >= 0 && p < nb {
			old[p].topHash[0] = v.U8()
		}
	}
	m := &Map{buckets: make([]bucket, 2), oldBuckets: &old, nEvacuate: s}
	m.advanceEvacuationMark(nb)
	v.Reach("advanced")
	v.Assert(m.nEvacuate <= nb, "the mark stays inside the old bucket array")
	if m.oldBuckets == nil {
		for _, p := range sym {
			if p >= 0 && p < nb {
				v.Assert(evacuated(&old[p]), "the old bucket array is released only when every old bucket has been evacuated")
			}
		}
	} else {
		for _, p := range sym {
			if p > s && p < m.nEvacuate && p < nb {
				v.Assert(evacuated(&old[p]), "the mark never passes a bucket that is not evacuated")
			}
		}
	}
}
