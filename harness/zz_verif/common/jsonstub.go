package zz_verif

import "errors"

// JSON stubs: jsoniter's reflection-driven encoder cannot be encoded; the hand-written marshalers only
// ever call it on a string (enum names) or on an auxiliary struct. A string is quoted / unquoted; any
// other value is captured for the harness to inspect.
var Captured any

func JSONMarshal(x any) ([]byte, error) {
	if s, ok := x.(string); ok {
		return []byte("\"" + s + "\""), nil
	}
	Captured = x
	return []byte("{}"), nil
}

func JSONUnmarshal(b []byte, p any) error {
	sp, ok := p.(*string)
	if !ok {
		return errors.New("json stub: only strings can be decoded")
	}
	if len(b) < 2 || b[0] != '"' || b[len(b)-1] != '"' {
		return errors.New("json stub: not a string")
	}
	*sp = string(b[1 : len(b)-1])
	return nil
}
