package zz_verif

import (
	"io/fs"
	"strconv"
	"strings"
)

// ---- hierarchical part of the model file system: directories, rename, temp files, listing; and the
// ---- system-call boundary hook used for crash points and injected faults -------------------------------

// Crash is the panic value with which a model system call kills the "process" under test.
type Crash struct{}

var (
	dirs         map[string]bool
	hier         bool // directories are tracked (ResetTree); the flat mode of ResetFS has no directories
	fsCrashArmed bool
	fsFaultArmed bool
	fsDead       bool // after a crash: no system call has any effect any more (deferred clean-up of a killed process never runs)
	FSSteps      int
	FSPartial    bool // a kill may also hit in the middle of a write (a prefix of the buffer is written)
	FSLog        []string // system calls so far (native debugging: VERIF_FSLOG=1)
	tmpCounter   int
	// FSYield, if set, runs at every system-call boundary (lets a harness interleave another actor)
	FSYield func()
)

// ResetTree empties the model file system and switches directory tracking on.
func ResetTree() {
	files = map[string]*FileData{}
	dirs = map[string]bool{"/": true}
	hier = true
	fsCrashArmed, fsFaultArmed, fsDead = false, false, false
	FSSteps, tmpCounter, FSLog, FSPartial = 0, 0, nil, false
	FSYield = nil
}

// ArmCrash: from now on every system-call boundary may be the point where the process is killed (one kill).
func ArmCrash() { fsCrashArmed = true }

// ArmFault: from now on one system call may fail with an I/O error instead of being performed.
func ArmFault() { fsFaultArmed = true }

// Disarm switches crash and fault injection off.
func Disarm() { fsCrashArmed, fsFaultArmed = false, false }

// Revive is called by the harness after it caught the Crash: the next "process" may use the file system.
func Revive() { fsDead = false }

var errDead = &fs.PathError{Op: "syscall", Path: "", Err: fs.ErrClosed}

// fsStep is the system-call boundary: kill point, fault point, yield point.
func fsStep(op, path string) error {
	if fsDead {
		return errDead
	}
	FSSteps++
	FSLog = append(FSLog, op+" "+path)
	if fsCrashArmed && Bool() {
		FSLog = append(FSLog, "KILLED")
		fsCrashArmed = false
		fsDead = true
		panic(Crash{})
	}
	if fsFaultArmed && Bool() {
		fsFaultArmed = false
		return &fs.PathError{Op: op, Path: path, Err: ErrModelIO}
	}
	if FSYield != nil {
		y := FSYield
		FSYield = nil // the other actor's own calls do not yield back
		y()
		if FSYield == nil {
			FSYield = y
		}
	}
	return nil
}

func parentOf(p string) string {
	i := strings.LastIndex(p, "/")
	if i <= 0 {
		return "/"
	}
	return p[:i]
}

func notExist(op, path string) error { return &fs.PathError{Op: op, Path: path, Err: fs.ErrNotExist} }

// MkdirAll is os.MkdirAll.
func MkdirAll(path string, perm fs.FileMode) error {
	if err := fsStep("mkdir", path); err != nil {
		return err
	}
	if _, isFile := files[path]; isFile {
		return &fs.PathError{Op: "mkdir", Path: path, Err: fs.ErrExist}
	}
	for p := path; p != "/" && p != ""; p = parentOf(p) {
		dirs[p] = true
	}
	return nil
}

// Open is os.Open (read-only).
func Open(name string) (*MemRWSC, error) {
	return OpenFile(name, 0, 0)
}

// CreateTemp is os.CreateTemp: a new file in dir whose name is pattern with "*" replaced by a counter.
func CreateTemp(dir, pattern string) (*MemRWSC, error) {
	if err := fsStep("createtemp", dir); err != nil {
		return nil, err
	}
	if hier && !dirs[dir] {
		return nil, notExist("createtemp", dir)
	}
	tmpCounter++
	name := dir + "/" + strings.TrimSuffix(pattern, "*") + strconv.Itoa(tmpCounter)
	f := &FileData{Name: name}
	files[name] = f
	return &MemRWSC{F: f, FailWriteAt: -1, OpenName: name}, nil
}

// Remove is os.Remove (file or empty directory).
func Remove(name string) error {
	if err := fsStep("remove", name); err != nil {
		return err
	}
	if _, ok := files[name]; ok {
		delete(files, name)
		return nil
	}
	if dirs[name] {
		if len(children(name)) > 0 {
			return &fs.PathError{Op: "remove", Path: name, Err: fs.ErrInvalid}
		}
		delete(dirs, name)
		return nil
	}
	return notExist("remove", name)
}

// Chmod is os.Chmod (permissions are not modelled).
func Chmod(name string, mode fs.FileMode) error {
	if err := fsStep("chmod", name); err != nil {
		return err
	}
	if _, ok := files[name]; !ok && !dirs[name] {
		return notExist("chmod", name)
	}
	return nil
}

// Rename is os.Rename: atomic; a file replaces an existing file, a directory moves with everything below it.
func Rename(oldpath, newpath string) error {
	if err := fsStep("rename", oldpath); err != nil {
		return err
	}
	if f, ok := files[oldpath]; ok {
		if dirs[newpath] {
			return &fs.PathError{Op: "rename", Path: newpath, Err: fs.ErrExist}
		}
		if hier && !dirs[parentOf(newpath)] {
			return notExist("rename", newpath)
		}
		delete(files, oldpath)
		f.Name = newpath
		files[newpath] = f
		return nil
	}
	if !dirs[oldpath] {
		return notExist("rename", oldpath)
	}
	if _, ok := files[newpath]; ok {
		return &fs.PathError{Op: "rename", Path: newpath, Err: fs.ErrExist}
	}
	if dirs[newpath] && len(children(newpath)) > 0 {
		return &fs.PathError{Op: "rename", Path: newpath, Err: fs.ErrExist}
	}
	if !dirs[parentOf(newpath)] {
		return notExist("rename", newpath)
	}
	pre := oldpath + "/"
	var moveF, moveD []string
	for name := range files {
		if strings.HasPrefix(name, pre) {
			moveF = append(moveF, name)
		}
	}
	for name := range dirs {
		if strings.HasPrefix(name, pre) {
			moveD = append(moveD, name)
		}
	}
	for _, name := range moveF {
		f := files[name]
		delete(files, name)
		f.Name = newpath + name[len(oldpath):]
		files[f.Name] = f
	}
	for _, name := range moveD {
		delete(dirs, name)
		dirs[newpath+name[len(oldpath):]] = true
	}
	delete(dirs, oldpath)
	dirs[newpath] = true
	return nil
}

// MemDirEnt is an entry of ReadDir.
type MemDirEnt struct {
	N   string
	Dir bool
}

func (e MemDirEnt) Name() string { return e.N }
func (e MemDirEnt) IsDir() bool  { return e.Dir }
func (e MemDirEnt) Type() fs.FileMode {
	if e.Dir {
		return fs.ModeDir
	}
	return 0
}
func (e MemDirEnt) Info() (fs.FileInfo, error) { return memInfo{name: e.N}, nil }

func children(dir string) []MemDirEnt {
	pre := dir + "/"
	if dir == "/" {
		pre = "/"
	}
	var out []MemDirEnt
	add := func(name string, isDir bool) {
		if !strings.HasPrefix(name, pre) || len(name) == len(pre) {
			return
		}
		rest := name[len(pre):]
		if strings.Contains(rest, "/") {
			return
		}
		// insertion sort by name (os.ReadDir returns entries sorted by filename)
		i := len(out)
		out = append(out, MemDirEnt{})
		for i > 0 && out[i-1].N > rest {
			out[i] = out[i-1]
			i--
		}
		out[i] = MemDirEnt{N: rest, Dir: isDir}
	}
	for name := range files {
		add(name, false)
	}
	for name := range dirs {
		add(name, true)
	}
	return out
}

// ReadDir is os.ReadDir.
func ReadDir(dir string) ([]fs.DirEntry, error) {
	if err := fsStep("readdir", dir); err != nil {
		return nil, err
	}
	if !dirs[dir] {
		return nil, notExist("readdir", dir)
	}
	ch := children(dir)
	out := make([]fs.DirEntry, len(ch))
	for i := range ch {
		out[i] = ch[i]
	}
	return out, nil
}

// Exists reports whether a file or directory of that name exists (harness-side inspection, not a system call).
func Exists(name string) bool {
	_, ok := files[name]
	return ok || dirs[name]
}

// ListDir is ReadDir for the harness (no system-call boundary).
func ListDir(dir string) []MemDirEnt { return children(dir) }

// RemoveAll is os.RemoveAll: one unlink / rmdir system call per file and directory below path (children first),
// so a kill can leave a partly removed tree.
func RemoveAll(path string) error {
	if _, ok := files[path]; ok {
		return Remove(path)
	}
	if !dirs[path] {
		return nil
	}
	for _, e := range children(path) {
		if err := RemoveAll(path + "/" + e.N); err != nil {
			return err
		}
	}
	return Remove(path)
}

// Stat is os.Stat.
func Stat(name string) (fs.FileInfo, error) {
	if err := fsStep("stat", name); err != nil {
		return nil, err
	}
	if dirs[name] {
		return memInfo{name: name, dir: true}, nil
	}
	if f, ok := files[name]; ok {
		return memInfo{name: name, size: int64(len(f.Data))}, nil
	}
	return nil, notExist("stat", name)
}

// MkdirTemp is os.MkdirTemp: a new directory in dir whose name is pattern with "*" replaced by a counter.
func MkdirTemp(dir, pattern string) (string, error) {
	if err := fsStep("mkdirtemp", dir); err != nil {
		return "", err
	}
	if !dirs[dir] {
		return "", notExist("mkdirtemp", dir)
	}
	tmpCounter++
	name := dir + "/" + strings.TrimSuffix(pattern, "*") + strconv.Itoa(tmpCounter)
	for Exists(name) { // os.MkdirTemp retries until the name is new
		tmpCounter++
		name = dir + "/" + strings.TrimSuffix(pattern, "*") + strconv.Itoa(tmpCounter)
	}
	dirs[name] = true
	return name, nil
}
