package zz_verif

import "time"

// Now is the clock stub: arbitrary non-decreasing instants (whole seconds).
func Now() time.Time { return time.Unix(NowSec(), 0) }
