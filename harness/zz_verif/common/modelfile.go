package zz_verif

import (
	"errors"
	"io"
	"io/fs"
	"time"
)

// MemRWSC is the model file used in place of *os.File (POSIX read/write/seek on one byte array).
// It implements concurrency.ReadWriteSeekCloser. Faults: if FailWriteAt >= 0 the write call with that
// index (counted per file) writes a prefix of FailPrefix bytes and returns an error.
type MemRWSC struct {
	Data        []byte
	Pos         int
	Closed      bool
	Writes      int
	FailWriteAt int
	FailPrefix  int
	NameStr     string
}

// NewMemRWSC creates a model file with the given initial content.
func NewMemRWSC(content []byte) *MemRWSC {
	return &MemRWSC{Data: content, FailWriteAt: -1}
}

var ErrModelIO = errors.New("model file: injected I/O error")

func (m *MemRWSC) Read(p []byte) (int, error) {
	if m.Pos >= len(m.Data) {
		if len(p) == 0 {
			return 0, nil
		}
		return 0, io.EOF
	}
	n := copy(p, m.Data[m.Pos:])
	m.Pos += n
	return n, nil
}

func (m *MemRWSC) Write(p []byte) (int, error) {
	idx := m.Writes
	m.Writes++
	w := p
	var err error
	if idx == m.FailWriteAt {
		if m.FailPrefix < len(p) {
			w = p[:m.FailPrefix]
		}
		err = ErrModelIO
	}
	// extend the file with zeros up to Pos if needed (sparse write), then overwrite / append
	for len(m.Data) < m.Pos {
		m.Data = append(m.Data, 0)
	}
	k := copy(m.Data[m.Pos:], w)
	if k < len(w) {
		m.Data = append(m.Data, w[k:]...)
	}
	m.Pos += len(w)
	return len(w), err
}

func (m *MemRWSC) Seek(offset int64, whence int) (int64, error) {
	var base int64
	switch whence {
	case io.SeekStart:
	case io.SeekCurrent:
		base = int64(m.Pos)
	case io.SeekEnd:
		base = int64(len(m.Data))
	default:
		return 0, errors.New("model file: bad whence")
	}
	np := base + offset
	if np < 0 {
		return 0, errors.New("model file: negative position")
	}
	m.Pos = int(np)
	return np, nil
}

func (m *MemRWSC) Close() error {
	m.Closed = true
	return nil
}

func (m *MemRWSC) Stat() (fs.FileInfo, error) {
	return memInfo{size: int64(len(m.Data)), name: m.NameStr}, nil
}

func (m *MemRWSC) Name() string { return m.NameStr }

type memInfo struct {
	size int64
	name string
}

func (s memInfo) Size() int64        { return s.size }
func (s memInfo) Mode() fs.FileMode  { return 0o644 }
func (s memInfo) ModTime() time.Time { return time.Time{} }
func (s memInfo) IsDir() bool        { return false }
func (s memInfo) Name() string       { return s.name }
func (s memInfo) Sys() any           { return nil }
