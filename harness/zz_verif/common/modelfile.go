package zz_verif

import (
	"errors"
	"io"
	"io/fs"
	"time"
)

// FileData is the content of one model file (shared by every handle opened on it).
type FileData struct {
	Data []byte
	Name string
}

// MemRWSC is a handle on a model file, used in place of *os.File (POSIX read/write/seek on one byte array).
// It implements concurrency.ReadWriteSeekCloser. Faults: if FailWriteAt >= 0 the write call with that
// index (counted per handle) writes a prefix of FailPrefix bytes and returns an error.
type MemRWSC struct {
	F           *FileData
	Pos         int
	Closed      bool
	Writes      int
	FailWriteAt int
	FailPrefix  int
	OpenName    string // the name the handle was opened under (os.File.Name does not follow renames)
}

// NewMemRWSC creates a model file with the given initial content and returns a handle at position 0.
func NewMemRWSC(content []byte) *MemRWSC {
	return &MemRWSC{F: &FileData{Data: content}, FailWriteAt: -1}
}

// Bytes returns the current content of the file.
func (m *MemRWSC) Bytes() []byte { return m.F.Data }

// Size returns the current length of the file.
func (m *MemRWSC) Size() int { return len(m.F.Data) }

var ErrModelIO = errors.New("model file: injected I/O error")

func (m *MemRWSC) Read(p []byte) (int, error) {
	if m == nil { // like *os.File: methods of a nil handle fail with ErrInvalid
		return 0, fs.ErrInvalid
	}
	if err := fsStep("read", m.F.Name); err != nil {
		return 0, err
	}
	if m.Pos >= len(m.F.Data) {
		if len(p) == 0 {
			return 0, nil
		}
		return 0, io.EOF
	}
	n := copy(p, m.F.Data[m.Pos:])
	m.Pos += n
	return n, nil
}

func (m *MemRWSC) Write(p []byte) (int, error) {
	if m == nil { // like *os.File: methods of a nil handle fail with ErrInvalid
		return 0, fs.ErrInvalid
	}
	if err := fsStep("write", m.F.Name); err != nil {
		return 0, err
	}
	if FSPartial && fsCrashArmed && len(p) > 1 && Bool() {
		// killed in the middle of this write: a proper prefix reaches the file
		var n int
		if len(p) <= 16 {
			n = Concretize(IntIn(1, len(p)-1))
		} else {
			n = Concretize(OneOf(1, 8, len(p)/2, len(p)-1)) // long buffers: representative cut points
		}
		m.put(p[:n])
		fsCrashArmed, fsDead = false, true
		FSLog = append(FSLog, "KILLED inside write")
		panic(Crash{})
	}
	idx := m.Writes
	m.Writes++
	w := p
	var err error
	if idx == m.FailWriteAt {
		if m.FailPrefix < len(p) {
			w = p[:m.FailPrefix]
		}
		err = ErrModelIO
	}
	m.put(w)
	return len(w), err
}

func (m *MemRWSC) put(w []byte) {
	// extend the file with zeros up to Pos if needed (sparse write), then overwrite / append
	if len(m.F.Data) < m.Pos {
		m.F.Data = append(m.F.Data, make([]byte, m.Pos-len(m.F.Data))...)
	}
	k := copy(m.F.Data[m.Pos:], w)
	if k < len(w) {
		m.F.Data = append(m.F.Data, w[k:]...)
	}
	m.Pos += len(w)
}

func (m *MemRWSC) Seek(offset int64, whence int) (int64, error) {
	if m == nil { // like *os.File: methods of a nil handle fail with ErrInvalid
		return 0, fs.ErrInvalid
	}
	var base int64
	switch whence {
	case io.SeekStart:
	case io.SeekCurrent:
		base = int64(m.Pos)
	case io.SeekEnd:
		base = int64(len(m.F.Data))
	default:
		return 0, errors.New("model file: bad whence")
	}
	np := base + offset
	if np < 0 {
		return 0, errors.New("model file: negative position")
	}
	m.Pos = int(np)
	return np, nil
}

func (m *MemRWSC) Close() error {
	if m == nil { // like *os.File: methods of a nil handle fail with ErrInvalid
		return fs.ErrInvalid
	}
	if err := fsStep("close", m.F.Name); err != nil {
		return err
	}
	m.Closed = true
	return nil
}

func (m *MemRWSC) Stat() (fs.FileInfo, error) {
	if m == nil { // like *os.File: methods of a nil handle fail with ErrInvalid
		return nil, fs.ErrInvalid
	}
	return memInfo{size: int64(len(m.F.Data)), name: m.F.Name}, nil
}

func (m *MemRWSC) Name() string { return m.OpenName }

type memInfo struct {
	size int64
	name string
	dir  bool
}

func (s memInfo) Size() int64        { return s.size }
func (s memInfo) Mode() fs.FileMode {
	if s.dir {
		return fs.ModeDir | 0o755
	}
	return 0o644
}
func (s memInfo) ModTime() time.Time { return time.Time{} }
func (s memInfo) IsDir() bool        { return s.dir }
func (s memInfo) Name() string       { return s.name }
func (s memInfo) Sys() any           { return nil }

// ---- a flat model file system: name -> content --------------------------------------------------------

var files map[string]*FileData

// ResetFS empties the model file system.
func ResetFS() {
	files = map[string]*FileData{}
	dirs, hier, fsCrashArmed, fsFaultArmed, fsDead, FSYield = nil, false, false, false, false, nil
}

// PutFile creates (or replaces) a file with the given content.
func PutFile(name string, content []byte) {
	if files == nil {
		files = map[string]*FileData{}
	}
	files[name] = &FileData{Data: content, Name: name}
}

// FileBytes returns the content of a file (nil if it does not exist).
func FileBytes(name string) []byte {
	if f, ok := files[name]; ok {
		return f.Data
	}
	return nil
}

const (
	oWRONLY = 0x1
	oRDWR   = 0x2
	oCREATE = 0x40
	oEXCL   = 0x80
	oTRUNC  = 0x200
)

// OpenFile is os.OpenFile on the model file system (flags: O_RDONLY, O_WRONLY, O_RDWR, O_CREATE, O_TRUNC).
func OpenFile(name string, flag int, perm fs.FileMode) (*MemRWSC, error) {
	if files == nil {
		files = map[string]*FileData{}
	}
	if err := fsStep("open", name); err != nil {
		return nil, err
	}
	f, ok := files[name]
	if ok && flag&oCREATE != 0 && flag&oEXCL != 0 {
		return nil, &fs.PathError{Op: "open", Path: name, Err: fs.ErrExist}
	}
	if dirs[name] {
		return nil, &fs.PathError{Op: "open", Path: name, Err: fs.ErrInvalid} // EISDIR
	}
	if !ok {
		if flag&oCREATE == 0 || (hier && !dirs[parentOf(name)]) {
			return nil, &fs.PathError{Op: "open", Path: name, Err: fs.ErrNotExist}
		}
		f = &FileData{Name: name}
		files[name] = f
	}
	if flag&oTRUNC != 0 {
		f.Data = nil
	}
	return &MemRWSC{F: f, FailWriteAt: -1, OpenName: name}, nil
}
