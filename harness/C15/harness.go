package distributed

import (
	"context"
	"errors"

	"github.com/danielgtaylor/huma/v2/sse"
	"github.com/els0r/goProbe/v4/pkg/query"
	"github.com/els0r/goProbe/v4/pkg/results"
	"github.com/els0r/goProbe/v4/pkg/types"
	"github.com/els0r/goProbe/v4/pkg/types/workload"
	v "github.com/els0r/goProbe/v4/zz_verif"
)

// symbolic description of one host's reply (a fresh *Result is built from it for every run, because
// aggregation modifies the reply)
type verifHost struct {
	name   string
	failed bool
	nrows  int
	iface  [2]string
	port   [2]uint16
	cnt    [2]types.Counters
	totals types.Counters
	stats  workload.Stats
	hits   int
	ifname string
}

func verifC15Host(name string, maxRows int) verifHost {
	h := verifHost{name: name, failed: v.Bool()}
	if h.failed {
		return h
	}
	h.nrows = v.Concretize(v.IntIn(0, maxRows))
	for i := 0; i < h.nrows; i++ {
		h.iface[i] = v.Str(1)
		h.port[i] = v.U16()
		h.cnt[i] = types.Counters{BytesRcvd: v.U64(), BytesSent: v.U64(), PacketsRcvd: v.U64(), PacketsSent: v.U64()}
	}
	if h.nrows == 2 {
		v.Assume(h.iface[0] != h.iface[1] || h.port[0] != h.port[1]) // rows of one reply have different keys
	}
	h.totals = types.Counters{BytesRcvd: v.U64(), BytesSent: v.U64(), PacketsRcvd: v.U64(), PacketsSent: v.U64()}
	h.stats = workload.Stats{BytesLoaded: v.U64(), BytesDecompressed: v.U64(), BlocksProcessed: v.U64(), BlocksCorrupted: v.U64(), DirectoriesProcessed: v.U64(), Workloads: v.U64()}
	h.hits = v.IntIn(0, 1000)
	h.ifname = "e0"
	if v.Bool() {
		h.ifname = "e1"
	}
	return h
}

func (h *verifHost) build() *results.Result {
	r := results.New()
	r.Start()
	r.Hostname = h.name
	if h.failed {
		r.SetErr(errors.New("host " + h.name + " failed"))
		return r
	}
	r.HostsStatuses[h.name] = results.Status{Code: types.StatusOK}
	for i := 0; i < h.nrows; i++ {
		r.Rows = append(r.Rows, results.Row{Labels: results.Labels{Iface: h.iface[i]}, Attributes: results.Attributes{DstPort: h.port[i]}, Counters: h.cnt[i]})
	}
	r.Summary.Totals = h.totals
	st := workload.Stats{BytesLoaded: h.stats.BytesLoaded, BytesDecompressed: h.stats.BytesDecompressed, BlocksProcessed: h.stats.BlocksProcessed,
		BlocksCorrupted: h.stats.BlocksCorrupted, DirectoriesProcessed: h.stats.DirectoriesProcessed, Workloads: h.stats.Workloads}
	r.Summary.Stats = &st
	r.Summary.Hits.Total = h.hits
	r.Summary.Interfaces = results.Interfaces{h.ifname}
	r.Summary.DataAvailable = true
	return r
}

// one complete aggregation of the replies in the given order; streaming finalises after every arrival
func verifC15Run(hosts []*verifHost, order []int, streaming bool) *results.Result {
	ctx := context.Background()
	stmt := &query.Statement{SortBy: results.SortTraffic, Direction: types.DirectionSum, NumResults: 1000}
	final := results.New()
	final.Start()
	rowMap := results.RowsMap{}
	ifaceMap := map[string]struct{}{}
	var send sse.Sender
	if streaming {
		send = func(sse.Message) error { return nil }
	}
	for _, i := range order {
		aggregateSingleResult(ctx, hosts[i].build(), final, stmt, ifaceMap, rowMap, send)
	}
	// the statement is shared by every partial result and the final one: finalising a (capped) partial result
	// must not change the limit the final result is cut to
	v.Assert(stmt.NumResults == 1000, "streaming partial results leave the statement's row limit unchanged")
	finalizeResult(ctx, final, stmt, rowMap, stmt.NumResults)
	return final
}

func verifC15Same(a, b *results.Result, what string) {
	v.Assert(a.Summary.Totals == b.Summary.Totals, what+": totals equal")
	v.Assert(a.Summary.Stats.BytesLoaded == b.Summary.Stats.BytesLoaded && a.Summary.Stats.BytesDecompressed == b.Summary.Stats.BytesDecompressed &&
		a.Summary.Stats.BlocksProcessed == b.Summary.Stats.BlocksProcessed && a.Summary.Stats.BlocksCorrupted == b.Summary.Stats.BlocksCorrupted &&
		a.Summary.Stats.DirectoriesProcessed == b.Summary.Stats.DirectoriesProcessed && a.Summary.Stats.Workloads == b.Summary.Stats.Workloads, what+": statistics equal")
	v.Assert(a.Summary.Hits.Total == b.Summary.Hits.Total, what+": hit count equal")
	v.Assert(len(a.Summary.Interfaces) == len(b.Summary.Interfaces), what+": interfaces equal")
	for i := range a.Summary.Interfaces {
		v.Assert(a.Summary.Interfaces[i] == b.Summary.Interfaces[i], what+": interfaces equal")
	}
	v.Assert(len(a.HostsStatuses) == len(b.HostsStatuses), what+": host statuses equal")
	for h, s := range a.HostsStatuses {
		v.Assert(b.HostsStatuses[h] == s, what+": host statuses equal")
	}
	v.Assert(len(a.Rows) == len(b.Rows), what+": same number of rows")
	if len(a.Rows) == len(b.Rows) {
		for i := range a.Rows {
			v.Assert(a.Rows[i] == b.Rows[i], what+": same rows in the same order")
		}
	}
}

// VerifC15_Order: the merged result of two host replies (rows possibly sharing keys, empty replies, failed
// hosts) is the same for both arrival orders; totals/statistics are sums, the hit count accounts for merged
// rows, a failed host is reported with its error; the streaming run ends in the same result.
func VerifC15_Order() {
	maxRows := v.Param("ROWS", 1)
	h1, h2 := verifC15Host("h1", maxRows), verifC15Host("h2", maxRows)
	hosts := []*verifHost{&h1, &h2}
	a := verifC15Run(hosts, []int{0, 1}, false)
	b := verifC15Run(hosts, []int{1, 0}, false)
	v.Reach("both-orders")
	verifC15Same(a, b, "reply order")
	s := verifC15Run(hosts, []int{0, 1}, true)
	verifC15Same(a, s, "streaming vs plain")
	// absolute content
	var totals types.Counters
	var blocks uint64
	var loaded uint64
	hits := 0
	for _, h := range hosts {
		if h.failed {
			st, ok := a.HostsStatuses[h.name]
			v.Assert(ok && st.Code == types.StatusError && st.Message == "host "+h.name+" failed", "a failed host is reported with its error")
			continue
		}
		totals.Add(h.totals)
		blocks += h.stats.BlocksProcessed
		loaded += h.stats.BytesLoaded
		hits += h.hits
	}
	v.Assert(a.Summary.Totals == totals, "totals are the sum over the hosts")
	v.Assert(a.Summary.Stats.BlocksProcessed == blocks && a.Summary.Stats.BytesLoaded == loaded, "statistics are the sum over the hosts")
	merged := 0
	if !h1.failed && !h2.failed {
		for i := 0; i < h1.nrows; i++ {
			for j := 0; j < h2.nrows; j++ {
				if h1.iface[i] == h2.iface[j] && h1.port[i] == h2.port[j] {
					merged++
				}
			}
		}
	}
	v.Assert(a.Summary.Hits.Total == hits-merged, "the hit count accounts for merged rows")
	nrows := 0
	if !h1.failed {
		nrows += h1.nrows
	}
	if !h2.failed {
		nrows += h2.nrows
	}
	v.Assert(len(a.Rows) == nrows-merged, "rows are the union of the hosts' rows")
}
