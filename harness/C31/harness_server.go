package server

import (
	v "github.com/els0r/goProbe/v4/zz_verif"
	"golang.org/x/time/rate"
)

// VerifC31_Option: the configured maximum number of concurrent queries reaches the value the API servers
// build their query runner's semaphore from (DefaultServer.QueryRateLimiter), whether or not a
// requests-per-second limit is configured as well.
func VerifC31_Option() {
	maxConcurrent := v.IntIn(0, 1<<20)
	burst := v.Concretize(v.OneOf(0, 1, 10)) // concrete: the limiter converts it to a float
	r := rate.Limit(0)
	if v.Bool() {
		r = rate.Limit(2.5)
	}
	s := &DefaultServer{}
	WithQueryRateLimit(r, burst, maxConcurrent)(s)
	n, lim, enabled := s.QueryRateLimiter()
	v.Reach("configured")
	v.Assert(n == maxConcurrent, "the configured concurrency limit is what the query runner is built with")
	v.Assert(enabled == (r > 0) && (lim != nil) == enabled, "the request-rate limiter exists exactly when a rate is configured")
}
