package distributed

import (
	"context"
	"errors"

	"github.com/els0r/goProbe/v4/pkg/distributed/hosts"
	"github.com/els0r/goProbe/v4/pkg/query"
	"github.com/els0r/goProbe/v4/pkg/results"
	"github.com/els0r/goProbe/v4/pkg/types"
	v "github.com/els0r/goProbe/v4/zz_verif"
)

var verifC31D struct{ prepareFails, unbounded, hostsFail bool }

func verifC31Prepare(a *query.Args) (*query.Statement, error) {
	if verifC31D.prepareFails {
		return nil, errors.New("invalid arguments")
	}
	return &query.Statement{}, nil
}

func verifC31Unbounded(a *query.Args) error {
	if verifC31D.unbounded {
		return errors.New("unbounded query")
	}
	return nil
}

var verifC31DBefore int

func verifC31HostList(q *QueryRunner) (hosts.Hosts, error) {
	v.Assert(len(q.sem) == verifC31DBefore+1, "a running query holds exactly one slot")
	if verifC31D.hostsFail {
		return nil, errors.New("host resolution failed")
	}
	return hosts.Hosts{"h1"}, nil
}

func verifC31Finish(q *QueryRunner) (*results.Result, error) {
	v.Assert(len(q.sem) == verifC31DBefore+1, "a running query holds exactly one slot")
	return results.New(), nil
}

// VerifC31_Distributed: the same slot discipline for the distributed query runner.
func VerifC31_Distributed() {
	capacity := v.Concretize(v.IntIn(1, 3))
	occupied := v.Concretize(v.IntIn(0, 3))
	v.Assume(occupied <= capacity)
	sem := make(chan struct{}, capacity)
	for i := 0; i < occupied; i++ {
		sem <- struct{}{}
	}
	q := &QueryRunner{}
	WithMaxConcurrent(sem)(q)
	verifC31D.prepareFails, verifC31D.unbounded, verifC31D.hostsFail = v.Bool(), v.Bool(), v.Bool()
	verifC31DBefore = occupied
	res, err := q.run(context.Background(), &query.Args{QueryHosts: "h1"}, nil)
	v.Reach("query-ended")
	v.Assert(len(sem) == occupied, "every finished or failed query leaves the occupancy as it found it")
	if occupied == capacity && !verifC31D.prepareFails {
		v.Reach("limit-reached")
		v.Assert(err == nil && res != nil && res.Status.Code == types.StatusTooManyRequests, "a query beyond the limit is answered with 'too many requests'")
	}
}
