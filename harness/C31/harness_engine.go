package engine

import (
	"context"
	"errors"

	"github.com/danielgtaylor/huma/v2/sse"
	"github.com/els0r/goProbe/v4/pkg/query"
	"github.com/els0r/goProbe/v4/pkg/results"
	"github.com/els0r/goProbe/v4/pkg/types"
	v "github.com/els0r/goProbe/v4/zz_verif"
)

// stubs the rewritten run() calls: each may succeed or fail; the statement execution may also panic
var verifC31Outcome struct{ prepareFails, listerFails, runFails, runPanics bool }

func verifMarshal(any) ([]byte, error) { return nil, nil }

func verifPrepare(a *query.Args) (*query.Statement, error) {
	if verifC31Outcome.prepareFails {
		return nil, errors.New("invalid arguments")
	}
	return &query.Statement{}, nil
}

type verifC31Lister struct{}

func (verifC31Lister) ListInterfaces() ([]string, error) {
	if verifC31Outcome.listerFails {
		return nil, errors.New("cannot list interfaces")
	}
	return []string{"eth0"}, nil
}

func verifRunStatement(qr *QueryRunner, ctx context.Context, stmt *query.Statement, send sse.Sender) (*results.Result, error) {
	v.Assert(len(qr.sem) <= cap(qr.sem), "occupancy never exceeds the limit")
	v.Assert(len(qr.sem) == verifC31Before+1, "a running query holds exactly one slot")
	if verifC31Outcome.runPanics {
		panic("statement execution panicked")
	}
	if verifC31Outcome.runFails {
		return nil, errors.New("statement execution failed")
	}
	return results.New(), nil
}

var verifC31Before int

// VerifC31_Engine: for every capacity, every occupancy at entry and every way a query can end (invalid
// arguments, interface listing fails, execution fails, execution panics, success) a query that got a slot
// releases exactly that slot, a query that got none is answered 'too many requests' and releases nothing.
func VerifC31_Engine() {
	capacity := v.Concretize(v.IntIn(1, 3))
	occupied := v.Concretize(v.IntIn(0, 3))
	v.Assume(occupied <= capacity)
	sem := make(chan struct{}, capacity)
	for i := 0; i < occupied; i++ {
		sem <- struct{}{}
	}
	qr := &QueryRunner{}
	WithMaxConcurrent(sem)(qr)
	verifC31Outcome.prepareFails, verifC31Outcome.listerFails = v.Bool(), v.Bool()
	verifC31Outcome.runFails, verifC31Outcome.runPanics = v.Bool(), v.Bool()
	verifC31Before = occupied
	var res *results.Result
	var err error
	panicked := false
	func() {
		defer func() {
			if recover() != nil {
				panicked = true
			}
		}()
		res, err = qr.run(context.Background(), &query.Args{Ifaces: "eth0"}, nil)
	}()
	v.Reach("query-ended")
	v.Assert(len(sem) == occupied, "every finished, failed or panicked query leaves the occupancy as it found it")
	if occupied == capacity && !verifC31Outcome.prepareFails {
		v.Reach("limit-reached")
		v.Assert(!panicked && err == nil && res != nil && res.Status.Code == types.StatusTooManyRequests, "a query beyond the limit is answered with 'too many requests'")
	}
}
