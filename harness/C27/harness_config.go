package config

import (
	v "github.com/els0r/goProbe/v4/zz_verif"
)

func verifC27Cfg(id int) CaptureConfig {
	return CaptureConfig{RingBuffer: &RingBufferConfig{BlockSize: id, NumBlocks: 1}}
}

// VerifC27_MatchDeterministic: with two overlapping regular-expression entries, the configuration found
// for an interface is the same on every lookup, whatever order the matcher's map is walked in.
func VerifC27_MatchDeterministic() {
	ifaces := Ifaces{"/eth.*/": verifC27Cfg(1), "/eth[0-9]+/": verifC27Cfg(2), "lo": verifC27Cfg(3)}
	m, hasRe, err := ifaces.Matcher()
	v.Assert(err == nil && hasRe, "matcher is built")
	first, ok := m.FindMatch("eth0")
	v.Assert(ok, "an interface matched by a pattern is selected")
	n := v.Param("LOOKUPS", 7)
	if !v.IsSymbolic() {
		n = 500 // native replay: Go randomises the walk; repeat until the other order has certainly been seen
	}
	for i := 0; i < n; i++ {
		again, ok2 := m.FindMatch("eth0")
		v.Assert(ok2, "an interface matched by a pattern is selected")
		v.Assert(again.RingBuffer.BlockSize == first.RingBuffer.BlockSize, "overlapping patterns: the configuration chosen for an interface does not depend on map iteration order")
	}
	v.Reach("looked up")
}

// VerifC27_MatchChoice: an explicit name wins over patterns, a pattern match yields the configuration of a
// pattern that matches, and a name matched by nothing is not selected (three overlapping patterns, every
// iteration order).
func VerifC27_MatchChoice() {
	ifaces := Ifaces{"eth0": verifC27Cfg(9), "/eth.*/": verifC27Cfg(1), "/eth[0-9]+/": verifC27Cfg(2), "/.*0/": verifC27Cfg(3)}
	m, _, err := ifaces.Matcher()
	v.Assert(err == nil, "matcher is built")
	c, ok := m.FindMatch("eth0")
	v.Assert(ok && c.RingBuffer.BlockSize == 9, "an explicitly named interface gets its own configuration")
	c, ok = m.FindMatch("wlan0")
	v.Assert(ok && c.RingBuffer.BlockSize == 3, "the only matching pattern is used")
	c, ok = m.FindMatch("ethx")
	v.Assert(ok && c.RingBuffer.BlockSize == 1, "the only matching pattern is used")
	c, ok = m.FindMatch("eth1")
	v.Assert(ok, "matched")
	v.Assert(c.RingBuffer.BlockSize == 1 || c.RingBuffer.BlockSize == 2, "the configuration comes from a pattern that matches")
	_, ok = m.FindMatch("lo")
	v.Assert(!ok, "an interface matched by nothing is not selected")
	v.Reach("looked up")
}
