package capture

import (
	"context"
	"time"

	"github.com/els0r/goProbe/v4/cmd/goProbe/config"
	"github.com/els0r/goProbe/v4/pkg/capture/capturetypes"
	v "github.com/els0r/goProbe/v4/zz_verif"
	"golang.org/x/net/bpf"
)

var verifC27Enable, verifC27Disable capturetypes.IfaceChanges

// stub of Manager.update: records the work lists (the capture life cycle itself is outside the claim)
func verifC27Update(cm *Manager, ifaces config.Ifaces, enable, disable capturetypes.IfaceChanges) {
	verifC27Enable = append(capturetypes.IfaceChanges(nil), enable...)
	verifC27Disable = append(capturetypes.IfaceChanges(nil), disable...)
}

func verifC27Cfg(filterLen int) config.CaptureConfig {
	c := config.CaptureConfig{IgnoreVLANs: v.Bool(), Promisc: v.Bool(),
		RingBuffer: &config.RingBufferConfig{BlockSize: v.IntIn(1, 1<<20), NumBlocks: v.IntIn(1, 64)}}
	for i := 0; i < filterLen; i++ {
		c.ExtraBPFFilters = append(c.ExtraBPFFilters, bpf.RawInstruction{Op: v.U16(), Jt: v.U8(), Jf: v.U8(), K: v.U32()})
	}
	return c
}

func verifC27Same(a, b config.CaptureConfig) bool {
	if a.IgnoreVLANs != b.IgnoreVLANs || a.Promisc != b.Promisc || a.Disable != b.Disable {
		return false
	}
	if a.RingBuffer.BlockSize != b.RingBuffer.BlockSize || a.RingBuffer.NumBlocks != b.RingBuffer.NumBlocks {
		return false
	}
	if len(a.ExtraBPFFilters) != len(b.ExtraBPFFilters) {
		return false
	}
	for i := range a.ExtraBPFFilters {
		if a.ExtraBPFFilters[i] != b.ExtraBPFFilters[i] {
			return false
		}
	}
	return true
}

func verifC27Has(l capturetypes.IfaceChanges, name string) int {
	n := 0
	for _, c := range l {
		if c.Name == name {
			n++
		}
	}
	return n
}

// VerifC27_Diff: the enable / update / disable work lists of a configuration update are exactly the
// difference between the running captures and the new configuration: new interfaces are enabled, removed
// ones disabled, and an interface is restarted exactly when any of its capture parameters changed.
func VerifC27_Diff() {
	kept := []string{"a", "b"}
	// a, b: running and still configured (any parameter may change); d: running, maybe removed; e: not running, maybe added
	cm := &Manager{captures: newCaptures(), lastAppliedConfig: config.Ifaces{}}
	newCfg := config.Ifaces{}
	changed := map[string]int{}
	for i, n := range kept {
		cm.captures.Set(n, &Capture{iface: n})
		fl0, fl1 := 1, 1
		if i == 0 {
			fl0, fl1 = v.Concretize(v.IntIn(0, 1)), v.Concretize(v.IntIn(0, 1))
		}
		o, c := verifC27Cfg(fl0), verifC27Cfg(fl1)
		cm.lastAppliedConfig[n], newCfg[n] = o, c
		changed[n] = 1
		if v.PureBool(func() bool { return verifC27Same(o, c) }) {
			changed[n] = 0
		}
	}
	cm.captures.Set("d", &Capture{iface: "d"})
	cm.lastAppliedConfig["d"] = verifC27Cfg(0)
	wantD, wantE := 1, 0
	if v.Bool() {
		newCfg["d"] = cm.lastAppliedConfig["d"]
		wantD = 0
	}
	if v.Bool() {
		newCfg["e"] = verifC27Cfg(0)
		wantE = 1
	}
	// f: explicitly disabled in the new configuration; running before or not
	wantF := 0
	if v.Bool() {
		cm.captures.Set("f", &Capture{iface: "f"})
		cm.lastAppliedConfig["f"] = verifC27Cfg(0)
		wantF = 1
	}
	newCfg["f"] = config.CaptureConfig{Disable: true}
	enabled, updated, disabled, err := cm.updateSelected(context.Background(), newCfg)
	v.Reach("diffed")
	v.Assert(err == nil, "update succeeds")
	v.Assert(verifC27Has(enabled, "f")+verifC27Has(verifC27Enable, "f")+verifC27Has(updated, "f") == 0, "an interface the configuration disables is never started")
	v.Assert(verifC27Has(disabled, "f") == wantF, "a running interface the configuration disables is reported disabled")
	v.Assert(verifC27Has(verifC27Disable, "f") == wantF, "a running interface the configuration disables is stopped")
	for _, n := range kept {
		want := changed[n]
		v.Assert(verifC27Has(updated, n) == want, "a running interface is restarted exactly when one of its capture parameters changed")
		v.Assert(verifC27Has(verifC27Enable, n) == want, "a restarted interface is in the enable work list once")
		v.Assert(verifC27Has(verifC27Disable, n) == want, "a restarted interface is in the disable work list once")
		v.Assert(verifC27Has(enabled, n)+verifC27Has(disabled, n) == 0, "a kept interface is neither added nor removed")
	}
	v.Assert(verifC27Has(disabled, "d") == wantD, "an interface dropped from the configuration is reported disabled")
	v.Assert(verifC27Has(verifC27Disable, "d") == wantD, "an interface dropped from the configuration is in the disable work list")
	v.Assert(verifC27Has(verifC27Enable, "d") == 0, "a dropped interface is not re-enabled")
	v.Assert(verifC27Has(enabled, "e") == wantE, "a newly configured interface is reported enabled")
	v.Assert(verifC27Has(verifC27Enable, "e") == wantE, "a newly configured interface is in the enable work list")
	v.Assert(verifC27Has(verifC27Disable, "e") == 0, "a new interface is not in the disable work list")
	n := changed["a"] + changed["b"]
	v.Assert(len(verifC27Enable) == n+wantE, "the enable work list holds nothing else")
	v.Assert(len(verifC27Disable) == n+wantD+wantF, "the disable work list holds nothing else")
}

// VerifC27_Lists: with three reconfigured interfaces plus one removal and one addition in the same update,
// the two work lists handed to update() are independent: each holds the restarted interfaces and its own
// added / removed one (no aliasing between the lists through the shared update slice).
func VerifC27_Lists() {
	kept := []string{"a", "b", "c"}
	cm := &Manager{captures: newCaptures(), lastAppliedConfig: config.Ifaces{}}
	newCfg := config.Ifaces{}
	nChanged := 0
	changed := map[string]int{}
	for _, n := range kept {
		cm.captures.Set(n, &Capture{iface: n})
		o := config.DefaultCaptureConfig()
		c := config.DefaultCaptureConfig()
		c.Promisc = v.Bool()
		cm.lastAppliedConfig[n], newCfg[n] = o, c
		changed[n] = 0
		if c.Promisc {
			changed[n] = 1
			nChanged++
		}
	}
	cm.captures.Set("d", &Capture{iface: "d"})
	cm.lastAppliedConfig["d"] = config.DefaultCaptureConfig()
	newCfg["e"] = config.DefaultCaptureConfig()
	_, updated, _, _ := cm.updateSelected(context.Background(), newCfg)
	v.Reach("diffed")
	v.Assert(len(updated) == nChanged, "restarted interfaces are reported")
	for _, n := range kept {
		v.Assert(verifC27Has(verifC27Enable, n) == changed[n], "a restarted interface is in the enable work list exactly once")
		v.Assert(verifC27Has(verifC27Disable, n) == changed[n], "a restarted interface is in the disable work list exactly once")
	}
	v.Assert(verifC27Has(verifC27Disable, "d") == 1, "the removed interface is in the disable work list")
	v.Assert(verifC27Has(verifC27Enable, "e") == 1, "the added interface is in the enable work list")
	v.Assert(len(verifC27Enable) == nChanged+1, "the enable work list holds nothing else")
	v.Assert(len(verifC27Disable) == nChanged+1, "the disable work list holds nothing else")
}

var (
	verifC27WOCount int
	verifC27WOAfter bool
	verifC27WONames []string
	verifC27Before  time.Time
)

// recorder standing in for Manager.performWriteout
func verifC27Writeout(ts time.Time, ifaces []string) {
	verifC27WOCount++
	verifC27WOAfter = ts.Unix() > verifC27Before.Unix() // block timestamps are whole seconds
	verifC27WONames = append([]string(nil), ifaces...)
}

// VerifC27_FinalWriteout: before update() stops the interfaces on its disable list it requests one final
// write-out for exactly those interfaces, stamped with a later second than the current instant - so that it cannot
// collide with (and be refused as a duplicate of) a regular write-out that already happened in this second.
func VerifC27_FinalWriteout() {
	cm := &Manager{captures: newCaptures(), lastAppliedConfig: config.Ifaces{}}
	disable := capturetypes.IfaceChanges{{Name: "a"}, {Name: "b"}}
	if v.Bool() {
		disable = disable[:1]
	}
	verifC27WOCount, verifC27WOAfter, verifC27WONames = 0, false, nil
	verifC27Before = time.Now()
	cm.update(context.Background(), config.Ifaces{}, nil, disable)
	v.Reach("updated")
	v.Assert(verifC27WOCount == 1, "one final write-out is requested for the interfaces about to stop")
	v.Assert(len(verifC27WONames) == len(disable), "the final write-out covers exactly the interfaces about to stop")
	for i := range disable {
		if i < len(verifC27WONames) {
			v.Assert(verifC27WONames[i] == disable[i].Name, "the final write-out covers exactly the interfaces about to stop")
		}
	}
	v.Assert(verifC27WOAfter, "the final write-out is stamped with a later second than the current instant")
	// nothing to stop: no write-out
	verifC27WOCount = 0
	cm.update(context.Background(), config.Ifaces{}, nil, nil)
	v.Assert(verifC27WOCount == 0, "no write-out is requested when no interface stops")
}
