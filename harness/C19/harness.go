package capture

import (
	"github.com/els0r/goProbe/v4/pkg/capture/capturetypes"
	v "github.com/els0r/goProbe/v4/zz_verif"
	"github.com/fako1024/slimcap/capture"
)

// documented common service ports (flow.go table comments): TCP 53, 80, 443, 445, 8080; UDP 53, 443
func verifC19DocCommon(p0, p1, proto byte) bool {
	port := uint16(p0)<<8 | uint16(p1)
	if proto == capturetypes.TCP {
		return port == 53 || port == 80 || port == 443 || port == 445 || port == 8080
	}
	if proto == capturetypes.UDP {
		return port == 53 || port == 443
	}
	return false
}

// VerifC19_CommonPorts: the lookup table agrees with the documented list for every protocol and port.
func VerifC19_CommonPorts() {
	p0, p1, proto := v.U8(), v.U8(), v.U8()
	got := isCommonPort([]byte{p0, p1}, proto)
	v.Reach("looked-up")
	v.Assert(got == verifC19DocCommon(p0, p1, proto), "isCommonPort equals the documented list")
}

func verifC19Eq(a, b []byte) bool { return v.EqBytes(a, b) }

// VerifC19_V4: for every IPv4 header of symbolic length (>= fixed header) and symbolic bytes the parser
// classifies or extracts the documented key, and never violates a bounds check.
func VerifC19_V4() {
	var n int
	if v.Param("ALLLEN", 0) == 1 {
		n = v.Concretize(v.IntIn(20, 64))
	} else {
		n = v.Concretize(v.OneOf(20, 21, 23, 24, 33, 34, 35, 64)) // both sides of every length threshold
	}
	pkt := v.Bytes(n)
	orig := make([]byte, 64)
	copy(orig, pkt)
	h, aux, errno := ParsePacketV4(capture.IPLayer(pkt))
	proto := orig[9]
	frag := (uint16(orig[6]&0x1f)<<8 | uint16(orig[7])) != 0
	switch {
	case proto != capturetypes.ESP && frag:
		v.Reach("fragment")
		v.Assert(errno == capturetypes.ErrnoPacketFragmentIgnore, "non-first fragment is classified as fragment")
		return
	case proto == capturetypes.TCP && n < 34, proto == capturetypes.UDP && n < 24, proto == capturetypes.ICMP && n < 21:
		v.Reach("truncated")
		v.Assert(errno == capturetypes.ErrnoPacketTruncated, "short transport header is classified as truncated")
		return
	}
	v.Reach("parsed")
	v.Assert(errno == capturetypes.ErrnoOK, "complete packet parses without error")
	v.Assert(verifC19Eq(h[0:4], orig[12:16]), "source address copied")
	v.Assert(verifC19Eq(h[6:10], orig[16:20]), "destination address copied")
	v.Assert(h[12] == proto, "protocol copied")
	if proto == capturetypes.TCP || proto == capturetypes.UDP {
		sCommon := verifC19DocCommon(orig[20], orig[21], proto)
		dCommon := verifC19DocCommon(orig[22], orig[23], proto)
		if dCommon {
			v.Assert(h[4] == 0 && h[5] == 0, "source port dropped when the destination is a common service port")
		} else {
			v.Assert(h[4] == orig[20] && h[5] == orig[21], "source port kept")
		}
		if sCommon {
			v.Assert(h[10] == 0 && h[11] == 0, "destination port dropped when the source is a common service port")
		} else {
			v.Assert(h[10] == orig[22] && h[11] == orig[23], "destination port kept")
		}
		if proto == capturetypes.TCP {
			v.Assert(aux == orig[33], "TCP flags reported")
		}
	} else {
		v.Assert(h[4] == 0 && h[5] == 0 && h[10] == 0 && h[11] == 0, "no ports for port-less protocols")
		if proto == capturetypes.ICMP {
			v.Assert(aux == orig[20], "ICMP type reported")
		}
	}
	// the input is not modified
	v.Assert(verifC19Eq(pkt, orig[:n]), "packet bytes unchanged")
}

// VerifC19_V6: same for IPv6.
func VerifC19_V6() {
	var n int
	if v.Param("ALLLEN", 0) == 1 {
		n = v.Concretize(v.IntIn(40, 64))
	} else {
		n = v.Concretize(v.OneOf(40, 41, 43, 44, 53, 54, 55, 64))
	}
	pkt := v.Bytes(n)
	orig := make([]byte, 64)
	copy(orig, pkt)
	h, aux, errno := ParsePacketV6(capture.IPLayer(pkt))
	proto := orig[6]
	switch {
	case proto == capturetypes.TCP && n < 54, proto == capturetypes.UDP && n < 44, proto == capturetypes.ICMPv6 && n < 41:
		v.Reach("truncated")
		v.Assert(errno == capturetypes.ErrnoPacketTruncated, "short transport header is classified as truncated")
		return
	}
	v.Reach("parsed")
	v.Assert(errno == capturetypes.ErrnoOK, "complete packet parses without error")
	v.Assert(verifC19Eq(h[0:16], orig[8:24]), "source address copied")
	v.Assert(verifC19Eq(h[18:34], orig[24:40]), "destination address copied")
	v.Assert(h[36] == proto, "protocol copied")
	if proto == capturetypes.TCP || proto == capturetypes.UDP {
		sCommon := verifC19DocCommon(orig[40], orig[41], proto)
		dCommon := verifC19DocCommon(orig[42], orig[43], proto)
		if dCommon {
			v.Assert(h[16] == 0 && h[17] == 0, "source port dropped when the destination is a common service port")
		} else {
			v.Assert(h[16] == orig[40] && h[17] == orig[41], "source port kept")
		}
		if sCommon {
			v.Assert(h[34] == 0 && h[35] == 0, "destination port dropped when the source is a common service port")
		} else {
			v.Assert(h[34] == orig[42] && h[35] == orig[43], "destination port kept")
		}
		if proto == capturetypes.TCP {
			v.Assert(aux == orig[53], "TCP flags reported")
		}
	} else {
		v.Assert(h[16] == 0 && h[17] == 0 && h[34] == 0 && h[35] == 0, "no ports for port-less protocols")
		if proto == capturetypes.ICMPv6 {
			v.Assert(aux == orig[40], "ICMPv6 type reported")
		}
	}
	v.Assert(verifC19Eq(pkt, orig[:n]), "packet bytes unchanged")
}

// mirror swaps addresses and ports of a header in place (copy).
func verifC19MirrorV4(p []byte) []byte {
	m := make([]byte, len(p))
	copy(m, p)
	copy(m[12:16], p[16:20])
	copy(m[16:20], p[12:16])
	copy(m[20:22], p[22:24])
	copy(m[22:24], p[20:22])
	return m
}

// VerifC19_MirrorV4: the key of the reverse packet of a TCP/UDP conversation is the mirror image of the key.
func VerifC19_MirrorV4() {
	pkt := v.Bytes(34)
	v.Assume(pkt[9] == capturetypes.TCP || pkt[9] == capturetypes.UDP)
	h1, _, e1 := ParsePacketV4(capture.IPLayer(pkt))
	h2, _, e2 := ParsePacketV4(capture.IPLayer(verifC19MirrorV4(pkt)))
	v.Assert(e1 == e2, "both directions classified alike")
	if e1 == capturetypes.ErrnoOK {
		v.Reach("mirrored")
		r := h1.Reverse()
		v.Assert(verifC19Eq(r[:], h2[:]), "key of the reverse packet is the mirror image")
	}
}

func verifC19MirrorV6(p []byte) []byte {
	m := make([]byte, len(p))
	copy(m, p)
	copy(m[8:24], p[24:40])
	copy(m[24:40], p[8:24])
	copy(m[40:42], p[42:44])
	copy(m[42:44], p[40:42])
	return m
}

func VerifC19_MirrorV6() {
	pkt := v.Bytes(54)
	v.Assume(pkt[6] == capturetypes.TCP || pkt[6] == capturetypes.UDP)
	h1, _, e1 := ParsePacketV6(capture.IPLayer(pkt))
	h2, _, e2 := ParsePacketV6(capture.IPLayer(verifC19MirrorV6(pkt)))
	v.Assert(e1 == e2, "both directions classified alike")
	if e1 == capturetypes.ErrnoOK {
		v.Reach("mirrored")
		r := h1.Reverse()
		v.Assert(verifC19Eq(r[:], h2[:]), "key of the reverse packet is the mirror image")
	}
}
