package results

import (
	"time"

	v "github.com/els0r/goProbe/v4/zz_verif"
)

// VerifC13_BinTimestamp: for every bin size that is a multiple of 5 minutes (enumerated configuration k*5min)
// and every non-negative timestamp, the bin label is the aligned end of the bin containing the timestamp,
// and binning is idempotent.
func VerifC13_BinTimestamp() {
	k := v.Concretize(v.IntIn(v.Param("KLO", 1), v.Param("KHI", 12)))
	binSize := time.Duration(k) * 5 * time.Minute
	b := int64(k) * 300
	ts := v.I64()
	v.Assume(ts >= 0 && ts <= 1<<40)
	r := BinTimestamp(ts, binSize)
	v.Reach("binned")
	v.Assert(r >= ts, "bin label is not before the timestamp")
	v.Assert(r-ts < b, "bin label is less than one bin after the timestamp")
	v.Assert(r%b == 0, "bin label is aligned to the bin size")
	v.Assert(BinTimestamp(r, binSize) == r, "binning a binned timestamp changes nothing")
}

// VerifC13_CalcBinSize: the automatic bin size is a positive multiple of five minutes that keeps
// at most a day's worth (288) of bins, for every query duration.
func VerifC13_CalcBinSize() {
	// query durations are differences of unix-second timestamps: whole seconds, at least one
	secs := v.I64()
	v.Assume(secs >= 1 && secs <= int64(v.Param("MAXDAYS", 4000))*86400)
	d := secs * int64(time.Second)
	size := CalcTimeBinSize(5*time.Minute, time.Duration(d))
	v.Reach("calculated")
	five := int64(5 * time.Minute)
	v.Assert(int64(size) > 0, "bin size positive")
	v.Assert(int64(size)%five == 0, "bin size is a multiple of five minutes")
	// number of bins needed to cover the duration: ceil(d / size) <= 288  <=>  d <= 288*size
	v.Assert(d <= 288*int64(size), "a day's worth of bins or fewer cover the query duration")
}
