package results

import (
	"time"

	v "github.com/els0r/goProbe/v4/zz_verif"
)

// VerifC13_BinTimestamp: for every bin size that is a multiple of 5 minutes (enumerated configuration k*5min)
// and every non-negative timestamp, the bin label is the aligned end of the bin containing the timestamp,
// and binning is idempotent.
func VerifC13_BinTimestamp() {
	k := v.Concretize(v.IntIn(v.Param("KLO", 1), v.Param("KHI", 12)))
	binSize := time.Duration(k) * 5 * time.Minute
	b := int64(k) * 300
	ts := v.I64()
	v.Assume(ts >= 0 && ts <= 1<<40)
	r := BinTimestamp(ts, binSize)
	v.Reach("binned")
	v.Assert(r >= ts, "bin label is not before the timestamp")
	v.Assert(r-ts < b, "bin label is less than one bin after the timestamp")
	v.Assert(r%b == 0, "bin label is aligned to the bin size")
	v.Assert(BinTimestamp(r, binSize) == r, "binning a binned timestamp changes nothing")
}

// VerifC13_CalcBinSize: the automatic bin size is a positive multiple of five minutes that keeps
// at most a day's worth (288) of bins, for every query duration.
func VerifC13_CalcBinSize() {
	// query durations are differences of unix-second timestamps: whole seconds, at least one
	secs := v.I64()
	v.Assume(secs >= 1 && secs <= int64(v.Param("MAXDAYS", 4000))*86400)
	d := secs * int64(time.Second)
	size := CalcTimeBinSize(5*time.Minute, time.Duration(d))
	v.Reach("calculated")
	five := int64(5 * time.Minute)
	v.Assert(int64(size) > 0, "bin size positive")
	v.Assert(int64(size)%five == 0, "bin size is a multiple of five minutes")
	// number of bins needed to cover the duration: ceil(d / size) <= 288  <=>  d <= 288*size
	v.Assert(d <= 288*int64(size), "a day's worth of bins or fewer cover the query duration")
}

func verifC13Row(iface string, utc bool) (Row, int64) {
	ts := v.I64()
	v.Assume(ts >= 1000000000 && ts <= 2000000000)
	t := time.Unix(ts, 0)
	if utc {
		t = t.UTC() // same instant, different struct (what a row decoded from a remote host's JSON carries)
	}
	r := Row{Labels: Labels{Timestamp: t, Iface: iface}}
	r.Counters.BytesRcvd, r.Counters.BytesSent = uint64(v.U32()), uint64(v.U32())
	r.Counters.PacketsRcvd, r.Counters.PacketsSent = uint64(v.U32()), uint64(v.U32())
	return r, ts
}

// VerifC13_BinTime: re-binning the rows of a time-resolved result conserves every counter, yields exactly
// one row per bin and label set, labels each row with the canonical aligned bin end (whatever time zone the
// input rows carried), and a second, unrelated result binned afterwards contains nothing of the first
// (the pooled map is handed back empty).
func VerifC13_BinTime() {
	k := v.Param("K", 2)
	binSize := time.Duration(k) * 5 * time.Minute
	b := int64(k) * 300
	n := v.Param("ROWS", 3)
	var rows Rows
	var want [4]uint64
	var tss []int64
	for i := 0; i < n; i++ {
		r, ts := verifC13Row("eth0", i == 0)
		rows = append(rows, r)
		tss = append(tss, ts)
		want[0] += r.Counters.BytesRcvd
		want[1] += r.Counters.BytesSent
		want[2] += r.Counters.PacketsRcvd
		want[3] += r.Counters.PacketsSent
	}
	res := &Result{Rows: rows}
	tb := NewTimeBinner(24*time.Hour, binSize)
	v.Assert(tb.BinTime(nil, res) == nil, "binning succeeds")
	v.Reach("binned rows")
	var got [4]uint64
	for i, r := range res.Rows {
		got[0] += r.Counters.BytesRcvd
		got[1] += r.Counters.BytesSent
		got[2] += r.Counters.PacketsRcvd
		got[3] += r.Counters.PacketsSent
		u := r.Labels.Timestamp.Unix()
		v.Assert(u%b == 0, "every row is labelled with an aligned bin end")
		v.Assert(r.Labels.Timestamp == time.Unix(u, 0), "every row carries the canonical time value of its bin")
		for j := 0; j < i; j++ {
			v.Assert(res.Rows[j].Labels.Timestamp.Unix() != u, "one row per bin and label set")
		}
	}
	v.Assert(got == want, "binning conserves the counters")
	v.Assert(res.Summary.Hits.Total == len(res.Rows), "the hit count is the number of binned rows")
	// every input row's bin is present
	for _, ts := range tss {
		found := false
		for _, r := range res.Rows {
			if r.Labels.Timestamp.Unix() == BinTimestamp(ts, binSize) {
				found = true
			}
		}
		v.Assert(found, "every input row is in the row of its bin")
	}
	// a second, unrelated result
	r2, _ := verifC13Row("eth1", false)
	res2 := &Result{Rows: Rows{r2}}
	v.Assert(tb.BinTime(nil, res2) == nil, "binning succeeds")
	v.Assert(len(res2.Rows) == 1 && res2.Rows[0].Labels.Iface == "eth1", "a later result contains only its own rows")
	v.Assert(res2.Rows[0].Counters == r2.Counters, "a later result keeps its own counters")
}
