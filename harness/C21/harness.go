package capture

import (
	"errors"

	"github.com/els0r/goProbe/v4/pkg/capture/capturetypes"
	v "github.com/els0r/goProbe/v4/zz_verif"
	"github.com/fako1024/gotools/concurrency"
	"github.com/fako1024/gotools/link"
	"github.com/fako1024/slimcap/capture"
)

type verifPkt struct {
	ip   []byte
	typ  byte
	size uint32
}

// verifSource delivers a scripted packet sequence. The unlock request of the paused capture becomes
// visible at a symbolic step: when `postAt` packets have been handed out the source issues the real
// Unlock() of the three-point lock and then either reports "unblocked" (the usual wake-up) or returns
// one more packet that was already in flight.
type verifSource struct {
	pkts      []verifPkt
	next      int
	postAt    int
	inFlight  bool // at the posting step a packet is returned instead of the unblock event
	posted    bool
	lock      *concurrency.ThreePointLock
	delivered int
}

func (s *verifSource) NextIPPacketZeroCopy() (capture.IPLayer, capture.PacketType, uint32, error) {
	if !s.posted && s.next >= s.postAt {
		s.posted = true
		if err := s.lock.Unlock(); err != nil {
			panic("verif: unlock failed")
		}
		if !s.inFlight || s.next >= len(s.pkts) {
			return nil, 0, 0, capture.ErrCaptureUnblocked
		}
	} else if s.posted || s.next >= len(s.pkts) {
		// the capture must not read past the unlock request
		return nil, 0, 0, capture.ErrCaptureUnblocked
	}
	p := s.pkts[s.next]
	s.next++
	s.delivered++
	return capture.IPLayer(p.ip), p.typ, p.size, nil
}

func (s *verifSource) NextPayloadZeroCopy() ([]byte, capture.PacketType, uint32, error) {
	return nil, 0, 0, errors.New("unused")
}
func (s *verifSource) NewPacket() capture.Packet                               { return nil }
func (s *verifSource) NextPacket(pBuf capture.Packet) (capture.Packet, error) { return nil, errors.New("unused") }
func (s *verifSource) NextPayload(pBuf []byte) ([]byte, byte, uint32, error) {
	return nil, 0, 0, errors.New("unused")
}
func (s *verifSource) NextIPPacket(pBuf capture.IPLayer) (capture.IPLayer, capture.PacketType, uint32, error) {
	return nil, 0, 0, errors.New("unused")
}
func (s *verifSource) NextPacketFn(func(payload []byte, totalLen uint32, pktType capture.PacketType, ipLayerOffset byte) error) error {
	return errors.New("unused")
}
func (s *verifSource) Stats() (capture.Stats, error) { return capture.Stats{}, nil }
func (s *verifSource) Link() *link.Link              { return nil }
func (s *verifSource) Unblock() error                { return nil }
func (s *verifSource) Close() error                  { return nil }

func verifC21Pkt() verifPkt {
	var p verifPkt
	// parsing and classification of every protocol are the subject of C19 / C22; here the protocol is GRE
	// (no ports, no direction heuristics) or, with PROTO=1, UDP, which keeps the number of parser paths small.
	// IPv4 fragments (parse status "ignore") stay possible.
	proto := byte(47)
	if v.Param("PROTO", 0) == 1 && v.Bool() {
		proto = 17
	}
	if v.Bool() {
		p.ip = v.Bytes(54) // IPv4 header + transport header part
		v.Assume(p.ip[0]>>4 == 4 && p.ip[9] == proto)
	} else {
		p.ip = v.Bytes(74)
		v.Assume(p.ip[0]>>4 == 6 && p.ip[6] == proto)
	}
	p.typ = v.U8()
	p.size = v.U32()
	return p
}

// the direct path: what process() does with a packet when the capture is not paused
func verifC21Direct(c *Capture, p verifPkt) {
	ipLayer := capture.IPLayer(p.ip)
	if ipLayer.Type() == ipLayerTypeV4 {
		epHash, aux, errno := ParsePacketV4(ipLayer)
		if errno > capturetypes.ErrnoOK {
			c.updateParsingErrorCounters(errno)
			return
		}
		c.stats.Processed++
		c.addToFlowLogV4(epHash, p.typ, p.size, aux)
		return
	}
	epHash, aux, errno := ParsePacketV6(ipLayer)
	if errno > capturetypes.ErrnoOK {
		c.updateParsingErrorCounters(errno)
		return
	}
	c.stats.Processed++
	c.addToFlowLogV6(epHash, p.typ, p.size, aux)
}

func verifC21SameFlows(a, b map[string]*Flow, what string) {
	v.Assert(len(a) == len(b), what+": same number of flows")
	for k, fa := range a {
		fb, ok := b[k]
		v.Assert(ok, what+": every flow of the direct path exists with the same key")
		if ok {
			v.Assert(*fa == *fb, what+": flow counters equal")
		}
	}
}

// VerifC21_Pause: the same packets fed through the paused path (bufferPackets, for every timing of the
// unlock request, over two consecutive pauses of one capture) and through the direct path give the same
// flow log and statistics.
func VerifC21_Pause() {
	nPauses := v.Param("PAUSES", 2)
	perPause := v.Param("PKTS", 1)
	pool := NewLocalBufferPool(1, 1<<20)
	lock := concurrency.NewThreePointLock(concurrency.WithMemPool(pool.MemPoolLimitUnique))
	direct := &Capture{flowLog: NewFlowLog()}
	paused := &Capture{flowLog: NewFlowLog(), capLock: lock}
	buf := NewLocalBuffer(pool)
	errs := make(chan error, 64)
	for ps := 0; ps < nPauses; ps++ {
		var pkts []verifPkt
		for i := 0; i < perPause; i++ {
			pkts = append(pkts, verifC21Pkt())
		}
		src := &verifSource{pkts: pkts, lock: lock, postAt: v.Concretize(v.IntIn(0, perPause)), inFlight: v.Bool()}
		paused.captureHandle = src
		buf.Assign(pool.Get(initialBufferSize)) // as process() does with the lock request's buffer
		err := paused.bufferPackets(buf, errs)
		v.Assert(err == nil, "buffering ends without error")
		v.Assert(len(errs) == 0, "no overflow or capture error reported")
		for i := 0; i < src.delivered; i++ {
			verifC21Direct(direct, pkts[i])
		}
	}
	v.Reach("compared")
	verifC21SameFlows(direct.flowLog.flowMapV4, paused.flowLog.flowMapV4, "IPv4")
	verifC21SameFlows(direct.flowLog.flowMapV6, paused.flowLog.flowMapV6, "IPv6")
	v.Assert(direct.stats.Processed == paused.stats.Processed, "processed counter equal")
	v.Assert(direct.stats.ParsingErrors == paused.stats.ParsingErrors, "parsing error counters equal")
}
