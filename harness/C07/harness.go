package encoder

import (
	"github.com/els0r/goProbe/v4/pkg/goDB/encoder/encoders"
	v "github.com/els0r/goProbe/v4/zz_verif"
)

// scratch buffer handed to Compress: arbitrary length <= capacity (incl. nil and the len=cap=8192 buffer the
// storage layer passes), arbitrary stale contents
func verifScratch() []byte {
	switch v.Concretize(v.Choice(3)) {
	case 0:
		return nil
	case 1:
		return v.Bytes(64) // full-length buffer with stale contents, as GPFile.writeBlock passes it (bufPool.Get(8192) has LENGTH 8192)
	}
	cp := v.IntIn(0, v.Param("MAXCAP", 96))
	ln := v.IntIn(0, v.Param("MAXCAP", 96))
	v.Assume(ln <= cp)
	b := v.Bytes(cp)
	return b[:ln]
}

func verifRoundTrip(t encoders.Type) {
	e, err := New(t)
	v.Assert(err == nil, "encoder available")
	n := v.IntIn(0, v.Param("MAXDATA", 8))
	data := v.Bytes(n)
	orig := make([]byte, 8)
	copy(orig, data)
	scratch := verifScratch()
	w := v.NewMemRWSC(nil)
	nw, err := e.Compress(data, scratch, w)
	v.Assert(err == nil, "compression of any input with any scratch buffer succeeds")
	v.Assert(nw == w.Size(), "reported byte count equals the bytes emitted")
	v.Assert(v.EqBytes(data, orig[:n]), "input not modified")
	v.Reach("compressed")
	if nw == 0 {
		v.Assert(n == 0, "only an empty block may be stored as zero bytes")
		return
	}
	// what the storage layer does on read: in = stored bytes, out = raw length
	in := make([]byte, nw)
	out := make([]byte, n)
	w.Seek(0, 0)
	m, err := e.Decompress(in, out, w)
	v.Assert(err == nil, "decompressing what was written succeeds")
	v.Assert(m == n, "decompressed length equals the input length")
	v.Assert(v.EqBytes(out[:n], orig[:n]), "decompression restores the input bytes")
	v.Reach("restored")
}

func VerifC07_LZ4()  { verifRoundTrip(encoders.EncoderTypeLZ4) }
func VerifC07_ZSTD() { verifRoundTrip(encoders.EncoderTypeZSTD) }
func VerifC07_Null() { verifRoundTrip(encoders.EncoderTypeNull) }

// VerifC07_DecompressFirst: an encoder instance that decompresses first can still compress afterwards.
func VerifC07_DecompressFirst() {
	t := encoders.EncoderTypeZSTD
	if v.Bool() {
		t = encoders.EncoderTypeLZ4
	}
	e1, _ := New(t)
	e2, _ := New(t)
	data := v.Bytes(4)
	w := v.NewMemRWSC(nil)
	nw, err := e1.Compress(data, nil, w)
	v.Assume(err == nil && nw > 0)
	in, out := make([]byte, nw), make([]byte, 4)
	w.Seek(0, 0)
	m, err := e2.Decompress(in, out, w) // e2 decompresses first ...
	v.Assert(err == nil && m == 4 && v.EqBytes(out, data), "a second instance decodes the data")
	w2 := v.NewMemRWSC(nil)
	nw2, err := e2.Compress(data, nil, w2) // ... and compresses afterwards
	v.Reach("decompress-then-compress")
	v.Assert(err == nil && nw2 == w2.Size() && nw2 > 0, "compression after decompression on the same instance works")
}
