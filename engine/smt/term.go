// Package smt is a small hash-consed SMT-LIB2 term DAG (bit-vectors <= 64 bit,
// booleans, arrays BV64 -> BVw) with constant folding and a printer.
package smt

import (
	"fmt"
	"math/bits"
	"sort"
	"strings"
)

type Kind uint8

const (
	KBool Kind = iota
	KBV
	KArr
)

type Sort struct {
	K  Kind
	W  int // bv width, or element width for arrays (index is always 64)
}

func (s Sort) String() string {
	switch s.K {
	case KBool:
		return "Bool"
	case KBV:
		return fmt.Sprintf("(_ BitVec %d)", s.W)
	default:
		return fmt.Sprintf("(Array (_ BitVec 64) (_ BitVec %d))", s.W)
	}
}

var BoolSort = Sort{K: KBool}

func BV(w int) Sort  { return Sort{K: KBV, W: w} }
func Arr(w int) Sort { return Sort{K: KArr, W: w} }

type Op uint8

const (
	OConst Op = iota
	OVar
	ONot
	OAnd
	OOr
	OIte
	OEq
	OAdd
	OSub
	OMul
	OUDiv
	OURem
	OSDiv
	OSRem
	OBAnd
	OBOr
	OBXor
	OBNot
	ONeg
	OShl
	OLShr
	OAShr
	OUlt
	OUle
	OSlt
	OSle
	OConcat
	OExtract
	OZExt
	OSExt
	OSelect
	OStore
	OConstArr
)

var opNames = map[Op]string{
	ONot: "not", OAnd: "and", OOr: "or", OIte: "ite", OEq: "=",
	OAdd: "bvadd", OSub: "bvsub", OMul: "bvmul", OUDiv: "bvudiv", OURem: "bvurem",
	OSDiv: "bvsdiv", OSRem: "bvsrem", OBAnd: "bvand", OBOr: "bvor", OBXor: "bvxor",
	OBNot: "bvnot", ONeg: "bvneg", OShl: "bvshl", OLShr: "bvlshr", OAShr: "bvashr",
	OUlt: "bvult", OUle: "bvule", OSlt: "bvslt", OSle: "bvsle", OConcat: "concat",
	OSelect: "select", OStore: "store",
}

type Term struct {
	ID   int
	Op   Op
	S    Sort
	Args []*Term
	Val  uint64 // OConst (bool: 0/1), OExtract: hi<<8|lo, OZExt/OSExt: extra bits
	Name string // OVar
}

// Ctx owns the hash-consing table.
type Ctx struct {
	tab   map[string]*Term
	next  int
	Vars  []*Term
	fresh map[string]int
	vsets map[int][]int32
}

func NewCtx() *Ctx {
	return &Ctx{tab: map[string]*Term{}, fresh: map[string]int{}, vsets: map[int][]int32{}}
}

// VarSet returns the sorted ids of the free variables of t (memoised per term).
func (c *Ctx) VarSet(t *Term) []int32 {
	if vs, ok := c.vsets[t.ID]; ok {
		return vs
	}
	type fr struct {
		t *Term
		i int
	}
	stack := []fr{{t, 0}}
	for len(stack) > 0 {
		f := &stack[len(stack)-1]
		if _, ok := c.vsets[f.t.ID]; ok {
			stack = stack[:len(stack)-1]
			continue
		}
		if f.i < len(f.t.Args) {
			a := f.t.Args[f.i]
			f.i++
			if _, ok := c.vsets[a.ID]; !ok {
				stack = append(stack, fr{a, 0})
			}
			continue
		}
		x := f.t
		stack = stack[:len(stack)-1]
		var vs []int32
		switch {
		case x.Op == OVar:
			vs = []int32{int32(x.ID)}
		case len(x.Args) == 1:
			vs = c.vsets[x.Args[0].ID]
		default:
			for _, a := range x.Args {
				vs = mergeSorted(vs, c.vsets[a.ID])
			}
		}
		c.vsets[x.ID] = vs
	}
	return c.vsets[t.ID]
}

func mergeSorted(a, b []int32) []int32 {
	if len(a) == 0 {
		return b
	}
	if len(b) == 0 {
		return a
	}
	// fast path: b subset of a is common; do a plain merge
	out := make([]int32, 0, len(a)+len(b))
	i, j := 0, 0
	for i < len(a) && j < len(b) {
		switch {
		case a[i] == b[j]:
			out = append(out, a[i])
			i++
			j++
		case a[i] < b[j]:
			out = append(out, a[i])
			i++
		default:
			out = append(out, b[j])
			j++
		}
	}
	out = append(out, a[i:]...)
	out = append(out, b[j:]...)
	if len(out) == len(a) {
		return a
	}
	return out
}

func (c *Ctx) mk(op Op, s Sort, val uint64, name string, args ...*Term) *Term {
	var sb strings.Builder
	fmt.Fprintf(&sb, "%d|%d.%d|%d|%s", op, s.K, s.W, val, name)
	for _, a := range args {
		fmt.Fprintf(&sb, "|%d", a.ID)
	}
	k := sb.String()
	if t, ok := c.tab[k]; ok {
		return t
	}
	c.next++
	t := &Term{ID: c.next, Op: op, S: s, Args: args, Val: val, Name: name}
	c.tab[k] = t
	if op == OVar {
		c.Vars = append(c.Vars, t)
	}
	return t
}

func mask(w int) uint64 {
	if w >= 64 {
		return ^uint64(0)
	}
	return (uint64(1) << uint(w)) - 1
}

func sext(v uint64, w int) int64 {
	if w >= 64 {
		return int64(v)
	}
	sh := uint(64 - w)
	return int64(v<<sh) >> sh
}

func (t *Term) IsConst() bool { return t.Op == OConst }
func (t *Term) IsTrue() bool  { return t.Op == OConst && t.S.K == KBool && t.Val == 1 }
func (t *Term) IsFalse() bool { return t.Op == OConst && t.S.K == KBool && t.Val == 0 }

// SVal returns the constant as a sign-extended integer.
func (t *Term) SVal() int64 { return sext(t.Val, t.S.W) }

func (c *Ctx) Const(v uint64, w int) *Term { return c.mk(OConst, BV(w), v&mask(w), "") }
func (c *Ctx) Bool(b bool) *Term {
	if b {
		return c.mk(OConst, BoolSort, 1, "")
	}
	return c.mk(OConst, BoolSort, 0, "")
}
func (c *Ctx) True() *Term  { return c.Bool(true) }
func (c *Ctx) False() *Term { return c.Bool(false) }

// Var creates a fresh variable; the name is made unique.
func (c *Ctx) Var(name string, s Sort) *Term {
	name = sanitize(name)
	n := c.fresh[name]
	c.fresh[name] = n + 1
	return c.mk(OVar, s, 0, fmt.Sprintf("%s!%d", name, n))
}

func sanitize(s string) string {
	var sb strings.Builder
	for _, r := range s {
		if r >= 'a' && r <= 'z' || r >= 'A' && r <= 'Z' || r >= '0' && r <= '9' || r == '_' || r == '.' {
			sb.WriteRune(r)
		} else {
			sb.WriteByte('_')
		}
	}
	if sb.Len() == 0 {
		return "v"
	}
	return sb.String()
}

func (c *Ctx) ConstArr(w int, def *Term) *Term { return c.mk(OConstArr, Arr(w), 0, "", def) }

func (c *Ctx) Not(a *Term) *Term {
	if a.IsConst() {
		return c.Bool(a.Val == 0)
	}
	if a.Op == ONot {
		return a.Args[0]
	}
	return c.mk(ONot, BoolSort, 0, "", a)
}

func (c *Ctx) And(as ...*Term) *Term {
	var out []*Term
	seen := map[int]bool{}
	for _, a := range as {
		if a.IsFalse() {
			return a
		}
		if a.IsTrue() || seen[a.ID] {
			continue
		}
		if a.Op == OAnd {
			for _, b := range a.Args {
				if !seen[b.ID] {
					seen[b.ID] = true
					out = append(out, b)
				}
			}
			continue
		}
		seen[a.ID] = true
		out = append(out, a)
	}
	for _, a := range out {
		if a.Op == ONot && seen[a.Args[0].ID] {
			return c.False()
		}
	}
	switch len(out) {
	case 0:
		return c.True()
	case 1:
		return out[0]
	}
	return c.mk(OAnd, BoolSort, 0, "", out...)
}

func (c *Ctx) Or(as ...*Term) *Term {
	var out []*Term
	seen := map[int]bool{}
	for _, a := range as {
		if a.IsTrue() {
			return a
		}
		if a.IsFalse() || seen[a.ID] {
			continue
		}
		if a.Op == OOr {
			for _, b := range a.Args {
				if !seen[b.ID] {
					seen[b.ID] = true
					out = append(out, b)
				}
			}
			continue
		}
		seen[a.ID] = true
		out = append(out, a)
	}
	for _, a := range out {
		if a.Op == ONot && seen[a.Args[0].ID] {
			return c.True()
		}
	}
	switch len(out) {
	case 0:
		return c.False()
	case 1:
		return out[0]
	}
	return c.mk(OOr, BoolSort, 0, "", out...)
}

func (c *Ctx) Implies(a, b *Term) *Term { return c.Or(c.Not(a), b) }

func (c *Ctx) Ite(cond, a, b *Term) *Term {
	if cond.IsConst() {
		if cond.Val == 1 {
			return a
		}
		return b
	}
	if a == b {
		return a
	}
	if a.S.K == KBool {
		if a.IsTrue() && b.IsFalse() {
			return cond
		}
		if a.IsFalse() && b.IsTrue() {
			return c.Not(cond)
		}
		if a.IsTrue() {
			return c.Or(cond, b)
		}
		if a.IsFalse() {
			return c.And(c.Not(cond), b)
		}
		if b.IsTrue() {
			return c.Or(c.Not(cond), a)
		}
		if b.IsFalse() {
			return c.And(cond, a)
		}
	}
	return c.mk(OIte, a.S, 0, "", cond, a, b)
}

func (c *Ctx) Eq(a, b *Term) *Term {
	if a == b {
		return c.True()
	}
	if a.S != b.S {
		panic(fmt.Sprintf("smt.Eq: sort mismatch %v vs %v", a.S, b.S))
	}
	if a.IsConst() && b.IsConst() {
		return c.Bool(a.Val == b.Val)
	}
	if a.S.K == KBool {
		if a.IsConst() {
			a, b = b, a
		}
		if b.IsTrue() {
			return a
		}
		if b.IsFalse() {
			return c.Not(a)
		}
	}
	if a.ID > b.ID {
		a, b = b, a
	}
	if a.S.K == KBV {
		ba, ka := baseOff(a)
		bb, kb := baseOff(b)
		if ba == bb && (ba != a || bb != b) {
			return c.Bool(ka == kb)
		}
	}
	// (ite c k1 k2) == k  with constants
	if b.IsConst() && a.Op == OIte && a.Args[1].IsConst() && a.Args[2].IsConst() {
		return c.Ite(a.Args[0], c.Bool(a.Args[1].Val == b.Val), c.Bool(a.Args[2].Val == b.Val))
	}
	if a.IsConst() && b.Op == OIte && b.Args[1].IsConst() && b.Args[2].IsConst() {
		return c.Ite(b.Args[0], c.Bool(b.Args[1].Val == a.Val), c.Bool(b.Args[2].Val == a.Val))
	}
	return c.mk(OEq, BoolSort, 0, "", a, b)
}

func (c *Ctx) Ne(a, b *Term) *Term { return c.Not(c.Eq(a, b)) }

func foldBin(op Op, x, y uint64, w int) (uint64, bool) {
	m := mask(w)
	switch op {
	case OAdd:
		return (x + y) & m, true
	case OSub:
		return (x - y) & m, true
	case OMul:
		return (x * y) & m, true
	case OUDiv:
		if y == 0 {
			return m, true
		}
		return x / y, true
	case OURem:
		if y == 0 {
			return x, true
		}
		return x % y, true
	case OSDiv:
		sx, sy := sext(x, w), sext(y, w)
		if sy == 0 {
			if sx >= 0 {
				return m, true
			}
			return 1, true
		}
		if sy == -1 {
			return uint64(-sx) & m, true
		}
		return uint64(sx/sy) & m, true
	case OSRem:
		sx, sy := sext(x, w), sext(y, w)
		if sy == 0 {
			return x, true
		}
		if sy == -1 {
			return 0, true
		}
		return uint64(sx%sy) & m, true
	case OBAnd:
		return x & y, true
	case OBOr:
		return x | y, true
	case OBXor:
		return x ^ y, true
	case OShl:
		if y >= uint64(w) {
			return 0, true
		}
		return (x << y) & m, true
	case OLShr:
		if y >= uint64(w) {
			return 0, true
		}
		return x >> y, true
	case OAShr:
		sx := sext(x, w)
		if y >= uint64(w) {
			y = uint64(w - 1)
		}
		return uint64(sx>>y) & m, true
	}
	return 0, false
}

func (c *Ctx) bin(op Op, a, b *Term) *Term {
	if a.S != b.S || a.S.K != KBV {
		panic(fmt.Sprintf("smt.bin %s: sort mismatch %v vs %v", opNames[op], a.S, b.S))
	}
	w := a.S.W
	if a.IsConst() && b.IsConst() {
		if v, ok := foldBin(op, a.Val, b.Val, w); ok {
			return c.Const(v, w)
		}
	}
	switch op {
	case OAdd:
		if a.IsConst() && a.Val == 0 {
			return b
		}
		if b.IsConst() && b.Val == 0 {
			return a
		}
		if a.IsConst() {
			a, b = b, a
		}
		// (x + k1) + k2
		if b.IsConst() && a.Op == OAdd && a.Args[1].IsConst() {
			return c.bin(OAdd, a.Args[0], c.Const(a.Args[1].Val+b.Val, w))
		}
	case OSub:
		if b.IsConst() && b.Val == 0 {
			return a
		}
		if a == b {
			return c.Const(0, w)
		}
		if b.IsConst() {
			return c.bin(OAdd, a, c.Const(-b.Val, w))
		}
		// (x + k1) - (x + k2)
		{
			ba, ka := baseOff(a)
			bb, kb := baseOff(b)
			if ba == bb {
				return c.Const(ka-kb, w)
			}
		}
	case OMul:
		if a.IsConst() {
			a, b = b, a
		}
		if b.IsConst() {
			if b.Val == 0 {
				return b
			}
			if b.Val == 1 {
				return a
			}
		}
	case OBAnd:
		if a.IsConst() {
			a, b = b, a
		}
		if b.IsConst() {
			if b.Val == 0 {
				return b
			}
			if b.Val == mask(w) {
				return a
			}
		}
		if a == b {
			return a
		}
	case OBOr, OBXor:
		if a.IsConst() {
			a, b = b, a
		}
		if b.IsConst() && b.Val == 0 {
			return a
		}
		if a == b {
			if op == OBOr {
				return a
			}
			return c.Const(0, w)
		}
	case OShl, OLShr, OAShr:
		if b.IsConst() && b.Val == 0 {
			return a
		}
		if b.IsConst() && b.Val >= uint64(w) && op != OAShr {
			return c.Const(0, w)
		}
	}
	return c.mk(op, a.S, 0, "", a, b)
}

func (c *Ctx) Add(a, b *Term) *Term  { return c.bin(OAdd, a, b) }
func (c *Ctx) Sub(a, b *Term) *Term  { return c.bin(OSub, a, b) }
func (c *Ctx) Mul(a, b *Term) *Term  { return c.bin(OMul, a, b) }
func (c *Ctx) UDiv(a, b *Term) *Term { return c.bin(OUDiv, a, b) }
func (c *Ctx) URem(a, b *Term) *Term { return c.bin(OURem, a, b) }
func (c *Ctx) SDiv(a, b *Term) *Term { return c.bin(OSDiv, a, b) }
func (c *Ctx) SRem(a, b *Term) *Term { return c.bin(OSRem, a, b) }
func (c *Ctx) BAnd(a, b *Term) *Term { return c.bin(OBAnd, a, b) }
func (c *Ctx) BOr(a, b *Term) *Term  { return c.bin(OBOr, a, b) }
func (c *Ctx) BXor(a, b *Term) *Term { return c.bin(OBXor, a, b) }
func (c *Ctx) Shl(a, b *Term) *Term  { return c.bin(OShl, a, b) }
func (c *Ctx) LShr(a, b *Term) *Term { return c.bin(OLShr, a, b) }
func (c *Ctx) AShr(a, b *Term) *Term { return c.bin(OAShr, a, b) }

func (c *Ctx) BNot(a *Term) *Term {
	if a.IsConst() {
		return c.Const(^a.Val, a.S.W)
	}
	if a.Op == OBNot {
		return a.Args[0]
	}
	return c.mk(OBNot, a.S, 0, "", a)
}

func (c *Ctx) Neg(a *Term) *Term {
	if a.IsConst() {
		return c.Const(-a.Val, a.S.W)
	}
	return c.mk(ONeg, a.S, 0, "", a)
}

func (c *Ctx) cmp(op Op, a, b *Term) *Term {
	if a.S != b.S || a.S.K != KBV {
		panic(fmt.Sprintf("smt.cmp %s: sort mismatch %v vs %v", opNames[op], a.S, b.S))
	}
	w := a.S.W
	if a.IsConst() && b.IsConst() {
		switch op {
		case OUlt:
			return c.Bool(a.Val < b.Val)
		case OUle:
			return c.Bool(a.Val <= b.Val)
		case OSlt:
			return c.Bool(sext(a.Val, w) < sext(b.Val, w))
		case OSle:
			return c.Bool(sext(a.Val, w) <= sext(b.Val, w))
		}
	}
	if a == b {
		return c.Bool(op == OUle || op == OSle)
	}
	if op == OUlt && b.IsConst() && b.Val == 0 {
		return c.False()
	}
	if op == OUle && a.IsConst() && a.Val == 0 {
		return c.True()
	}
	return c.mk(op, BoolSort, 0, "", a, b)
}

func (c *Ctx) Ult(a, b *Term) *Term { return c.cmp(OUlt, a, b) }
func (c *Ctx) Ule(a, b *Term) *Term { return c.cmp(OUle, a, b) }
func (c *Ctx) Slt(a, b *Term) *Term { return c.cmp(OSlt, a, b) }
func (c *Ctx) Sle(a, b *Term) *Term { return c.cmp(OSle, a, b) }
func (c *Ctx) Ugt(a, b *Term) *Term { return c.cmp(OUlt, b, a) }
func (c *Ctx) Uge(a, b *Term) *Term { return c.cmp(OUle, b, a) }
func (c *Ctx) Sgt(a, b *Term) *Term { return c.cmp(OSlt, b, a) }
func (c *Ctx) Sge(a, b *Term) *Term { return c.cmp(OSle, b, a) }

func (c *Ctx) Concat(hi, lo *Term) *Term {
	w := hi.S.W + lo.S.W
	if w > 64 {
		panic("smt.Concat: width > 64")
	}
	if hi.IsConst() && lo.IsConst() {
		return c.Const(hi.Val<<uint(lo.S.W)|lo.Val, w)
	}
	// concat(extract[h:m+1] x, extract[m:l] x) => extract[h:l] x
	if hi.Op == OExtract && lo.Op == OExtract && hi.Args[0] == lo.Args[0] {
		hh, hl := int(hi.Val>>8), int(hi.Val&0xff)
		lh, ll := int(lo.Val>>8), int(lo.Val&0xff)
		if hl == lh+1 {
			return c.Extract(hi.Args[0], hh, ll)
		}
	}
	return c.mk(OConcat, BV(w), 0, "", hi, lo)
}

func (c *Ctx) Extract(a *Term, hi, lo int) *Term {
	w := hi - lo + 1
	if lo == 0 && w == a.S.W {
		return a
	}
	if a.IsConst() {
		return c.Const(a.Val>>uint(lo), w)
	}
	switch a.Op {
	case OExtract:
		l0 := int(a.Val & 0xff)
		return c.Extract(a.Args[0], hi+l0, lo+l0)
	case OConcat:
		lw := a.Args[1].S.W
		if hi < lw {
			return c.Extract(a.Args[1], hi, lo)
		}
		if lo >= lw {
			return c.Extract(a.Args[0], hi-lw, lo-lw)
		}
	case OZExt:
		iw := a.Args[0].S.W
		if hi < iw {
			return c.Extract(a.Args[0], hi, lo)
		}
		if lo >= iw {
			return c.Const(0, w)
		}
	case OSExt:
		iw := a.Args[0].S.W
		if hi < iw {
			return c.Extract(a.Args[0], hi, lo)
		}
	}
	return c.mk(OExtract, BV(w), uint64(hi)<<8|uint64(lo), "", a)
}

func (c *Ctx) ZExt(a *Term, w int) *Term {
	if w == a.S.W {
		return a
	}
	if w < a.S.W {
		return c.Extract(a, w-1, 0)
	}
	if a.IsConst() {
		return c.Const(a.Val, w)
	}
	if a.Op == OZExt {
		return c.ZExt(a.Args[0], w)
	}
	return c.mk(OZExt, BV(w), uint64(w-a.S.W), "", a)
}

func (c *Ctx) SExt(a *Term, w int) *Term {
	if w == a.S.W {
		return a
	}
	if w < a.S.W {
		return c.Extract(a, w-1, 0)
	}
	if a.IsConst() {
		return c.Const(uint64(sext(a.Val, a.S.W)), w)
	}
	if a.Op == OZExt {
		return c.ZExt(a.Args[0], w)
	}
	return c.mk(OSExt, BV(w), uint64(w-a.S.W), "", a)
}

func (c *Ctx) Select(arr, idx *Term) *Term {
	if idx.S.W != 64 {
		panic("smt.Select: index width")
	}
	a := arr
	for {
		switch a.Op {
		case OStore:
			si := a.Args[1]
			if si == idx {
				return a.Args[2]
			}
			if si.IsConst() && idx.IsConst() {
				a = a.Args[0]
				continue
			}
			// distinct by constant offset from same base: x+k1 vs x+k2
			if distinctOffsets(si, idx) {
				a = a.Args[0]
				continue
			}
		case OConstArr:
			return a.Args[0]
		}
		break
	}
	return c.mk(OSelect, BV(arr.S.W), 0, "", a, idx)
}

func baseOff(t *Term) (*Term, uint64) {
	if t.Op == OAdd && t.Args[1].IsConst() {
		return t.Args[0], t.Args[1].Val
	}
	return t, 0
}

func distinctOffsets(a, b *Term) bool {
	ba, oa := baseOff(a)
	bb, ob := baseOff(b)
	return ba == bb && oa != ob
}

func (c *Ctx) Store(arr, idx, v *Term) *Term {
	if idx.S.W != 64 || v.S.W != arr.S.W {
		panic(fmt.Sprintf("smt.Store: sorts idx=%v v=%v arr=%v", idx.S, v.S, arr.S))
	}
	// overwrite of same index directly on top
	if arr.Op == OStore && arr.Args[1] == idx {
		return c.Store(arr.Args[0], idx, v)
	}
	// storing the value the cell already holds is a no-op (sparse composite-literal initialisers)
	if idx.IsConst() && v.IsConst() {
		if cur := c.Select(arr, idx); cur == v {
			return arr
		}
	}
	return c.mk(OStore, arr.S, 0, "", arr, idx, v)
}

// ---------------------------------------------------------------------------
// Printing

func constStr(t *Term) string {
	if t.S.K == KBool {
		if t.Val == 1 {
			return "true"
		}
		return "false"
	}
	if t.S.W%4 == 0 {
		return fmt.Sprintf("#x%0*x", t.S.W/4, t.Val)
	}
	return fmt.Sprintf("#b%0*b", t.S.W, t.Val)
}

// Script renders declarations + define-funs for all nodes reachable from roots and
// returns the script plus the textual reference for every root.
func Script(roots []*Term) (string, []string) {
	var sb strings.Builder
	ref := map[int]string{}
	var visit func(t *Term)
	visit = func(t *Term) {
		if _, ok := ref[t.ID]; ok {
			return
		}
		// iterative for deep store chains
		type fr struct {
			t *Term
			i int
		}
		stack := []fr{{t, 0}}
		for len(stack) > 0 {
			f := &stack[len(stack)-1]
			if _, ok := ref[f.t.ID]; ok {
				stack = stack[:len(stack)-1]
				continue
			}
			if f.i < len(f.t.Args) {
				a := f.t.Args[f.i]
				f.i++
				if _, ok := ref[a.ID]; !ok {
					stack = append(stack, fr{a, 0})
				}
				continue
			}
			x := f.t
			stack = stack[:len(stack)-1]
			switch x.Op {
			case OConst:
				ref[x.ID] = constStr(x)
			case OVar:
				fmt.Fprintf(&sb, "(declare-fun |%s| () %s)\n", x.Name, x.S)
				ref[x.ID] = "|" + x.Name + "|"
			default:
				var e strings.Builder
				switch x.Op {
				case OExtract:
					fmt.Fprintf(&e, "((_ extract %d %d) %s)", x.Val>>8, x.Val&0xff, ref[x.Args[0].ID])
				case OZExt:
					fmt.Fprintf(&e, "((_ zero_extend %d) %s)", x.Val, ref[x.Args[0].ID])
				case OSExt:
					fmt.Fprintf(&e, "((_ sign_extend %d) %s)", x.Val, ref[x.Args[0].ID])
				case OConstArr:
					fmt.Fprintf(&e, "((as const %s) %s)", x.S, ref[x.Args[0].ID])
				default:
					e.WriteByte('(')
					e.WriteString(opNames[x.Op])
					for _, a := range x.Args {
						e.WriteByte(' ')
						e.WriteString(ref[a.ID])
					}
					e.WriteByte(')')
				}
				name := fmt.Sprintf("t%d", x.ID)
				fmt.Fprintf(&sb, "(define-fun %s () %s %s)\n", name, x.S, e.String())
				ref[x.ID] = name
			}
		}
	}
	out := make([]string, len(roots))
	for i, r := range roots {
		visit(r)
		out[i] = ref[r.ID]
	}
	return sb.String(), out
}

// VarsOf returns the variables reachable from roots, sorted by name.
func VarsOf(roots []*Term) []*Term {
	seen := map[int]bool{}
	var vs []*Term
	stack := append([]*Term{}, roots...)
	for len(stack) > 0 {
		t := stack[len(stack)-1]
		stack = stack[:len(stack)-1]
		if seen[t.ID] {
			continue
		}
		seen[t.ID] = true
		if t.Op == OVar {
			vs = append(vs, t)
		}
		stack = append(stack, t.Args...)
	}
	sort.Slice(vs, func(i, j int) bool { return vs[i].ID < vs[j].ID })
	return vs
}

// Eval evaluates a term under a model (variables -> value; arrays -> map).
type Model struct {
	BV  map[string]uint64
	Arr map[string]map[uint64]uint64 // sparse; default in ArrDef
	ArrDef map[string]uint64
}

func Log2(x uint64) int { return bits.Len64(x) - 1 }
