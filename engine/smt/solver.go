package smt

import (
	"bufio"
	"context"
	"crypto/sha256"
	"fmt"
	"io"
	"os"
	"os/exec"
	"strconv"
	"strings"
	"sync"
	"time"
)

type Result int

const (
	Unknown Result = iota
	Sat
	Unsat
)

func (r Result) String() string { return [...]string{"unknown", "sat", "unsat"}[r] }

// Backend describes one way to run a solver.
type Backend struct {
	Name       string
	Persistent bool
	Argv       []string // for persistent: process reading stdin; for one-shot: file name appended
}

var (
	Z3      = Backend{Name: "z3", Persistent: true, Argv: []string{"z3", "-in"}}
	Z3New   = Backend{Name: "z3-new", Persistent: true, Argv: []string{"z3-new", "-in"}}
	CVC5    = Backend{Name: "cvc5", Argv: []string{"cvc5", "--lang=smt2", "--produce-models"}}
	CVC5Int = Backend{Name: "cvc5-int", Argv: []string{"cvc5", "--lang=smt2", "--produce-models", "--solve-bv-as-int=sum"}}
)

type proc struct {
	cmd *exec.Cmd
	in  io.WriteCloser
	out *bufio.Reader
}

type Stats struct {
	Queries   int
	CacheHits int
	ByBackend map[string]int
	ByResult  map[string]int
	Time      time.Duration
	Errors    int
}

type cacheEnt struct {
	r    Result
	vals []uint64
}

// Solver runs queries on a primary persistent backend with fallbacks.
type Solver struct {
	mu        sync.Mutex
	procs     map[string]*proc
	Primary   Backend
	Fallbacks []Backend
	TimeoutMs int
	QuickMs   int
	cache     map[[32]byte]cacheEnt
	St        Stats
	Log       io.Writer
	// Cross: if set, every definitive answer on an obligation is cross-checked on this backend
	Cross *Backend
	RaceInt bool
	Disagreements int
}

func NewSolver() *Solver {
	return &Solver{procs: map[string]*proc{}, Primary: Z3New, Fallbacks: []Backend{CVC5, Z3, CVC5Int},
		TimeoutMs: 20000, QuickMs: 1500, cache: map[[32]byte]cacheEnt{},
		St: Stats{ByBackend: map[string]int{}, ByResult: map[string]int{}}}
}

func (s *Solver) Close() {
	for _, p := range s.procs {
		p.in.Close()
		p.cmd.Process.Kill()
		p.cmd.Wait()
	}
	s.procs = map[string]*proc{}
}

func (s *Solver) getProc(b Backend) (*proc, error) {
	if p, ok := s.procs[b.Name]; ok {
		return p, nil
	}
	cmd := exec.Command(b.Argv[0], b.Argv[1:]...)
	in, err := cmd.StdinPipe()
	if err != nil {
		return nil, err
	}
	out, err := cmd.StdoutPipe()
	if err != nil {
		return nil, err
	}
	cmd.Stderr = cmd.Stdout
	if err := cmd.Start(); err != nil {
		return nil, err
	}
	p := &proc{cmd: cmd, in: in, out: bufio.NewReaderSize(out, 1<<16)}
	s.procs[b.Name] = p
	return p, nil
}

func (s *Solver) killProc(b Backend) {
	if p, ok := s.procs[b.Name]; ok {
		p.in.Close()
		p.cmd.Process.Kill()
		p.cmd.Wait()
		delete(s.procs, b.Name)
	}
}

const endMark = "<<END>>"

func (p *proc) roundTrip(text string, deadline time.Duration) (string, error) {
	werr := make(chan error, 1)
	go func() {
		_, err := io.WriteString(p.in, text+"\n(echo \""+endMark+"\")\n")
		werr <- err
	}()
	type res struct {
		s   string
		err error
	}
	ch := make(chan res, 1)
	go func() {
		var sb strings.Builder
		for {
			line, err := p.out.ReadString('\n')
			if strings.Contains(line, endMark) {
				ch <- res{sb.String(), nil}
				return
			}
			sb.WriteString(line)
			if err != nil {
				ch <- res{sb.String(), err}
				return
			}
		}
	}()
	select {
	case r := <-ch:
		select {
		case err := <-werr:
			if err != nil && r.err == nil {
				return r.s, err
			}
		case <-time.After(time.Second):
		}
		return r.s, r.err
	case <-time.After(deadline):
		return "", fmt.Errorf("solver deadline exceeded")
	}
}

// Check decides the conjunction of asserts. If sat and want is non-empty the values
// of the want terms (BV or Bool) are returned.
func (s *Solver) Check(asserts []*Term, want []*Term) (Result, []uint64, string) {
	return s.CheckWith(asserts, want, false)
}

// CheckWith: if heavy is true the fallbacks are tried on unknown.
func (s *Solver) CheckWith(asserts []*Term, want []*Term, heavy bool) (Result, []uint64, string) {
	for _, a := range asserts {
		if a.IsFalse() {
			return Unsat, nil, "trivial"
		}
	}
	roots := append(append([]*Term{}, asserts...), want...)
	body, refs := Script(roots)
	var sb strings.Builder
	sb.WriteString(body)
	for i := range asserts {
		if refs[i] == "true" {
			continue
		}
		fmt.Fprintf(&sb, "(assert %s)\n", refs[i])
	}
	script := sb.String()
	wantRefs := refs[len(asserts):]
	key := sha256.Sum256([]byte(script + "\x00" + strings.Join(wantRefs, " ")))
	s.mu.Lock()
	defer s.mu.Unlock()
	if e, ok := s.cache[key]; ok {
		s.St.CacheHits++
		return e.r, e.vals, "cache"
	}
	t0 := time.Now()
	s.St.Queries++
	r, vals, used := s.run(s.Primary, script, wantRefs, want, s.QuickMs)
	if r == Unknown {
		tm := s.TimeoutMs
		if heavy {
			tm *= 3
		}
		r, vals, used = s.race(script, wantRefs, tm)
	}
	if r != Unknown && heavy && s.Cross != nil && s.Cross.Name != used {
		r2, _, _ := s.run(*s.Cross, script, wantRefs, nil, s.TimeoutMs*3)
		if r2 != Unknown && r2 != r {
			s.Disagreements++
			if s.Log != nil {
				fmt.Fprintf(s.Log, "SOLVER DISAGREEMENT %s=%v %s=%v\n", used, r, s.Cross.Name, r2)
			}
			r = Unknown
		}
	}
	s.St.Time += time.Since(t0)
	if d := os.Getenv("GOSMT_SLOW_DIR"); d != "" && time.Since(t0) > 2*time.Second {
		os.WriteFile(fmt.Sprintf("%s/q%d-%s-%dms.smt2", d, s.St.Queries, r, time.Since(t0).Milliseconds()), []byte(script+"(check-sat)\n"), 0o644)
	}
	s.St.ByBackend[used]++
	s.St.ByResult[r.String()]++
	if r != Unknown {
		s.cache[key] = cacheEnt{r, vals}
	}
	return r, vals, used
}

func (s *Solver) run(b Backend, script string, wantRefs []string, want []*Term, timeoutMs int) (Result, []uint64, string) {
	if b.Persistent {
		p, err := s.getProc(b)
		if err != nil {
			s.St.Errors++
			return Unknown, nil, b.Name
		}
		text := fmt.Sprintf("(reset)\n(set-option :timeout %d)\n%s(check-sat)", timeoutMs, script)
		out, err := p.roundTrip(text, time.Duration(timeoutMs)*time.Millisecond*2+5*time.Second)
		if err != nil {
			s.killProc(b)
			s.St.Errors++
			return Unknown, nil, b.Name
		}
		r := parseResult(out)
		if strings.Contains(out, "(error") {
			s.St.Errors++
			if s.Log != nil {
				fmt.Fprintf(s.Log, "solver error output: %s\n", firstLine(out))
			}
			if os.Getenv("GOSMT_DUMP_ERR") != "" {
				os.WriteFile(os.Getenv("GOSMT_DUMP_ERR"), []byte(text), 0o644)
			}
			return Unknown, nil, b.Name
		}
		if r == Sat && len(wantRefs) > 0 {
			out, err = p.roundTrip("(get-value ("+strings.Join(wantRefs, " ")+"))", 60*time.Second)
			if err != nil {
				s.killProc(b)
				s.St.Errors++
				return Unknown, nil, b.Name
			}
			vals, ok := parseValues(out, len(wantRefs))
			if !ok {
				s.St.Errors++
				if s.Log != nil {
					fmt.Fprintf(s.Log, "cannot parse model: %s\n", out)
				}
				return Unknown, nil, b.Name
			}
			return r, vals, b.Name
		}
		return r, nil, b.Name
	}
	// one-shot
	f, err := os.CreateTemp("", "gosmt-*.smt2")
	if err != nil {
		return Unknown, nil, b.Name
	}
	defer os.Remove(f.Name())
	fmt.Fprintf(f, "(set-logic ALL)\n%s(check-sat)\n", script)
	if len(wantRefs) > 0 {
		fmt.Fprintf(f, "(get-value (%s))\n", strings.Join(wantRefs, " "))
	}
	f.Close()
	argv := append(append([]string{}, b.Argv[1:]...), fmt.Sprintf("--tlimit=%d", timeoutMs), f.Name())
	cmd := exec.Command(b.Argv[0], argv...)
	outb, _ := cmd.CombinedOutput()
	out := string(outb)
	r := parseResult(out)
	if r == Unsat {
		return r, nil, b.Name
	}
	if strings.Contains(out, "(error") && r != Sat {
		return Unknown, nil, b.Name
	}
	if r == Sat && len(wantRefs) > 0 {
		i := strings.Index(out, "sat")
		vals, ok := parseValues(out[i+3:], len(wantRefs))
		if !ok {
			return Unknown, nil, b.Name
		}
		return r, vals, b.Name
	}
	return r, nil, b.Name
}

func firstLine(s string) string {
	for _, l := range strings.Split(s, "\n") {
		if strings.Contains(l, "(error") {
			return l
		}
	}
	return s
}

func parseResult(out string) Result {
	for _, l := range strings.Split(out, "\n") {
		switch strings.TrimSpace(l) {
		case "sat":
			return Sat
		case "unsat":
			return Unsat
		case "unknown", "timeout":
			return Unknown
		}
	}
	return Unknown
}

// parseValues parses "((ref val) (ref val) ...)" returning the n values in order.
func parseValues(out string, n int) ([]uint64, bool) {
	toks := tokenize(out)
	// expect: ( ( ref val ) ... )
	pos := 0
	if pos >= len(toks) || toks[pos] != "(" {
		return nil, false
	}
	pos++
	var vals []uint64
	for pos < len(toks) && toks[pos] == "(" {
		pos++
		// ref: atom or balanced expr
		pos = skipExpr(toks, pos)
		// value
		v, np, ok := parseVal(toks, pos)
		if !ok {
			return nil, false
		}
		pos = np
		if pos >= len(toks) || toks[pos] != ")" {
			return nil, false
		}
		pos++
		vals = append(vals, v)
	}
	return vals, len(vals) == n
}

func skipExpr(toks []string, pos int) int {
	if pos >= len(toks) {
		return pos
	}
	if toks[pos] != "(" {
		return pos + 1
	}
	depth := 0
	for pos < len(toks) {
		if toks[pos] == "(" {
			depth++
		} else if toks[pos] == ")" {
			depth--
			if depth == 0 {
				return pos + 1
			}
		}
		pos++
	}
	return pos
}

func parseVal(toks []string, pos int) (uint64, int, bool) {
	if pos >= len(toks) {
		return 0, pos, false
	}
	t := toks[pos]
	switch {
	case t == "true":
		return 1, pos + 1, true
	case t == "false":
		return 0, pos + 1, true
	case strings.HasPrefix(t, "#x"):
		v, err := strconv.ParseUint(t[2:], 16, 64)
		return v, pos + 1, err == nil
	case strings.HasPrefix(t, "#b"):
		v, err := strconv.ParseUint(t[2:], 2, 64)
		return v, pos + 1, err == nil
	case t == "(":
		// (_ bv123 32)
		if pos+4 < len(toks) && toks[pos+1] == "_" && strings.HasPrefix(toks[pos+2], "bv") {
			v, err := strconv.ParseUint(toks[pos+2][2:], 10, 64)
			return v, pos + 5, err == nil
		}
	}
	return 0, pos, false
}

func tokenize(s string) []string {
	var toks []string
	i := 0
	for i < len(s) {
		c := s[i]
		switch {
		case c == '(' || c == ')':
			toks = append(toks, string(c))
			i++
		case c == ' ' || c == '\n' || c == '\t' || c == '\r':
			i++
		case c == '|':
			j := strings.IndexByte(s[i+1:], '|')
			if j < 0 {
				return toks
			}
			toks = append(toks, s[i:i+j+2])
			i += j + 2
		case c == '"':
			j := strings.IndexByte(s[i+1:], '"')
			if j < 0 {
				return toks
			}
			toks = append(toks, s[i:i+j+2])
			i += j + 2
		default:
			j := i
			for j < len(s) && !strings.ContainsRune("() \n\t\r", rune(s[j])) {
				j++
			}
			toks = append(toks, s[i:j])
			i = j
		}
	}
	return toks
}


type raceRes struct {
	r    Result
	vals []uint64
	name string
}

// race runs the query on all one-shot back ends in parallel; the first definitive answer wins.
func (s *Solver) race(script string, wantRefs []string, timeoutMs int) (Result, []uint64, string) {
	f, err := os.CreateTemp("", "gosmt-race-*.smt2")
	if err != nil {
		return Unknown, nil, "race"
	}
	defer os.Remove(f.Name())
	fmt.Fprintf(f, "(set-logic ALL)\n(set-option :produce-models true)\n%s(check-sat)\n", script)
	if len(wantRefs) > 0 {
		fmt.Fprintf(f, "(get-value (%s))\n", strings.Join(wantRefs, " "))
	}
	f.Close()
	ctx, cancel := context.WithTimeout(context.Background(), time.Duration(timeoutMs)*time.Millisecond+2*time.Second)
	defer cancel()
	cmds := [][]string{
		{"z3", fmt.Sprintf("-t:%d", timeoutMs), f.Name()},
		{"z3-new", fmt.Sprintf("-t:%d", timeoutMs), f.Name()},
		{"cvc5", "--lang=smt2", "--produce-models", fmt.Sprintf("--tlimit=%d", timeoutMs), f.Name()},
	}
	if s.RaceInt {
		cmds = append(cmds, []string{"cvc5", "--lang=smt2", "--produce-models", "--solve-bv-as-int=sum", fmt.Sprintf("--tlimit=%d", timeoutMs), f.Name()})
	}
	ch := make(chan raceRes, len(cmds))
	for i, argv := range cmds {
		name := argv[0]
		if i == 3 {
			name = "cvc5-int"
		}
		go func(argv []string, name string) {
			cmd := exec.CommandContext(ctx, argv[0], argv[1:]...)
			outb, _ := cmd.CombinedOutput()
			out := string(outb)
			r := parseResult(out)
			if r == Unsat {
				ch <- raceRes{Unsat, nil, name}
				return
			}
			if r == Sat {
				if len(wantRefs) == 0 {
					ch <- raceRes{Sat, nil, name}
					return
				}
				i := strings.Index(out, "sat")
				if vals, ok := parseValues(out[i+3:], len(wantRefs)); ok {
					ch <- raceRes{Sat, vals, name}
					return
				}
			}
			ch <- raceRes{Unknown, nil, name}
		}(argv, name)
	}
	for range cmds {
		rr := <-ch
		if rr.r != Unknown {
			return rr.r, rr.vals, rr.name + "(race)"
		}
	}
	return Unknown, nil, "race"
}
