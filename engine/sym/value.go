// Package sym is a bounded symbolic executor for go/ssa.
package sym

import (
	"fmt"
	"go/types"
	"strings"

	"golang.org/x/tools/go/ssa"

	"verif/engine/smt"
)

type Value interface{}

// Ptr points to a cell: object id + path of field/element indices, optionally
// followed by an element index Idx into a scalar array (BArrV) at that path.
type Ptr struct {
	Obj  int
	Path string // encoded path: "/3/0/12"
	Idx  *smt.Term
}

func (p Ptr) IsNil() bool { return p.Obj == 0 }

type StructV struct{ F []Value }
type ArrV struct{ E []Value }
type BArrV struct {
	A   *smt.Term
	Len *smt.Term // number of elements (64-bit)
	EW  int       // element width in bits
	Bool bool     // elements are Go bools (stored as BV1)
	Signed bool
}
type SliceV struct {
	Base          Ptr // pointer to the array cell (BArrV or ArrV)
	Off, Len, Cap *smt.Term
	Nil           bool
}
type StrV struct {
	Conc bool
	S    string
	A    *smt.Term // Arr(8)
	Len  *smt.Term
}
type MapRef struct{ Obj int }
type MapV struct {
	Keys, Vals []Value
	Deleted    []bool
}
type IfaceV struct {
	T types.Type // nil => nil interface
	V Value
}
type FuncV struct {
	Fn   *ssa.Function
	Bind []Value
	Blt  *ssa.Builtin
	// bound method on interface / native
	Native string
}
type TupleV []Value
type ChanRef struct{ Obj int }
type ChanV struct {
	Cap    int
	Q      []Value
	Closed bool
}
type FloatV float64

// FloatSym is the only symbolic float supported: the value of time.Duration.Seconds(), i.e.
// float64(sec) + float64(nsec)/1e9 with |nsec| < 1e9 and sec, nsec of the same sign. Converting it to an
// integer truncates towards zero, which is exactly sec.
type FloatSym struct{ Sec *smt.Term }
type NativeV struct {
	Tag string
	V   interface{}
}

// RangeIter is the state of a map/string range.
type RangeIter struct {
	Keys, Vals []Value
	Pos        int
	Str        bool
}

func (e *Engine) isBoolT(t types.Type) bool {
	b, ok := t.Underlying().(*types.Basic)
	return ok && b.Info()&types.IsBoolean != 0
}

func basicWidth(b *types.Basic) (w int, signed bool, ok bool) {
	switch b.Kind() {
	case types.Int8:
		return 8, true, true
	case types.Int16:
		return 16, true, true
	case types.Int32:
		return 32, true, true
	case types.Int64, types.Int, types.UntypedInt, types.UntypedRune:
		return 64, true, true
	case types.Uint8:
		return 8, false, true
	case types.Uint16:
		return 16, false, true
	case types.Uint32:
		return 32, false, true
	case types.Uint64, types.Uint, types.Uintptr:
		return 64, false, true
	}
	return 0, false, false
}

// intInfo returns width/signedness for integer types.
func intInfo(t types.Type) (int, bool, bool) {
	if b, ok := t.Underlying().(*types.Basic); ok {
		return basicWidth(b)
	}
	return 0, false, false
}

func isScalarElem(t types.Type) (ew int, isBool, signed, ok bool) {
	if b, ok2 := t.Underlying().(*types.Basic); ok2 {
		if b.Info()&types.IsBoolean != 0 {
			return 1, true, false, true
		}
		if w, s, ok3 := basicWidth(b); ok3 {
			return w, false, s, true
		}
	}
	return 0, false, false, false
}

// flatArray reports whether t is an array whose leaves are scalars (possibly nested arrays);
// such arrays are stored flattened in one BArrV (row-major) with total leaf count n.
func flatArray(t types.Type) (n int, ew int, isBool, signed, ok bool) {
	a, isA := t.Underlying().(*types.Array)
	if !isA {
		return 0, 0, false, false, false
	}
	if ew, isB, sg, ok := isScalarElem(a.Elem()); ok {
		return int(a.Len()), ew, isB, sg, true
	}
	if m, ew, isB, sg, ok := flatArray(a.Elem()); ok {
		return int(a.Len()) * m, ew, isB, sg, true
	}
	return 0, 0, false, false, false
}

// flatStride is the number of leaf cells per element of array type a.
func flatStride(a *types.Array) int {
	if m, _, _, _, ok := flatArray(a.Elem()); ok {
		return m
	}
	return 1
}

func isFloatT(t types.Type) bool {
	b, ok := t.Underlying().(*types.Basic)
	return ok && b.Info()&types.IsFloat != 0
}

func isStringT(t types.Type) bool {
	b, ok := t.Underlying().(*types.Basic)
	return ok && b.Info()&types.IsString != 0
}

// Zero builds the zero value of a type.
func (e *Engine) Zero(t types.Type) Value {
	c := e.C
	switch u := t.Underlying().(type) {
	case *types.Basic:
		if u.Info()&types.IsBoolean != 0 {
			return c.False()
		}
		if w, _, ok := basicWidth(u); ok {
			return c.Const(0, w)
		}
		if u.Info()&types.IsString != 0 {
			return StrV{Conc: true}
		}
		if u.Info()&types.IsFloat != 0 {
			return FloatV(0)
		}
		if u.Kind() == types.UnsafePointer {
			return Ptr{}
		}
		if u.Kind() == types.UntypedNil {
			return Ptr{}
		}
		panic(unsupported("zero of basic " + u.String()))
	case *types.Pointer:
		return Ptr{}
	case *types.Struct:
		f := make([]Value, u.NumFields())
		for i := range f {
			f[i] = e.Zero(u.Field(i).Type())
		}
		return StructV{F: f}
	case *types.Array:
		n := int(u.Len())
		if tot, ew, isB, sg, ok := flatArray(u); ok {
			return BArrV{A: c.ConstArr(ew, c.Const(0, ew)), Len: c.Const(uint64(tot), 64), EW: ew, Bool: isB, Signed: sg}
		}
		el := make([]Value, n)
		for i := range el {
			el[i] = e.Zero(u.Elem())
		}
		return ArrV{E: el}
	case *types.Slice:
		z := c.Const(0, 64)
		return SliceV{Nil: true, Off: z, Len: z, Cap: z}
	case *types.Map:
		return MapRef{}
	case *types.Chan:
		return ChanRef{}
	case *types.Interface:
		return IfaceV{}
	case *types.Signature:
		return FuncV{}
	case *types.Tuple:
		tv := make(TupleV, u.Len())
		for i := range tv {
			tv[i] = e.Zero(u.At(i).Type())
		}
		return tv
	}
	panic(unsupported("zero of " + t.String()))
}

type unsupportedErr struct{ msg string }

func unsupported(msg string) unsupportedErr { return unsupportedErr{msg} }

type pathDead struct{}

func pathAppend(p string, i int) string { return fmt.Sprintf("%s/%d", p, i) }

func splitPath(p string) []int {
	if p == "" {
		return nil
	}
	parts := strings.Split(p[1:], "/")
	out := make([]int, len(parts))
	for i, s := range parts {
		fmt.Sscanf(s, "%d", &out[i])
	}
	return out
}

func getAt(v Value, path []int) Value {
	for _, i := range path {
		switch x := v.(type) {
		case StructV:
			v = x.F[i]
		case ArrV:
			v = x.E[i]
		default:
			panic(fmt.Sprintf("getAt: cannot descend into %T", v))
		}
	}
	return v
}

func setAt(v Value, path []int, nv Value) Value {
	if len(path) == 0 {
		return nv
	}
	i := path[0]
	switch x := v.(type) {
	case StructV:
		f := make([]Value, len(x.F))
		copy(f, x.F)
		f[i] = setAt(x.F[i], path[1:], nv)
		return StructV{F: f}
	case ArrV:
		el := make([]Value, len(x.E))
		copy(el, x.E)
		el[i] = setAt(x.E[i], path[1:], nv)
		return ArrV{E: el}
	}
	panic(fmt.Sprintf("setAt: cannot descend into %T", v))
}

func (e *Engine) showValue(v Value) string {
	switch x := v.(type) {
	case *smt.Term:
		if x.IsConst() {
			if x.S.K == smt.KBool {
				return fmt.Sprint(x.Val == 1)
			}
			return fmt.Sprint(x.Val)
		}
		return "<sym>"
	case StrV:
		if x.Conc {
			return fmt.Sprintf("%q", x.S)
		}
		return "<symstr>"
	case nil:
		return "nil"
	}
	return fmt.Sprintf("%T", v)
}

// deepShow renders a concrete value structurally (used as an interning key).
func (e *Engine) deepShow(st *State, v Value) string {
	switch x := v.(type) {
	case StructV:
		var sb strings.Builder
		sb.WriteByte('{')
		for _, f := range x.F {
			sb.WriteString(e.deepShow(st, f))
			sb.WriteByte(',')
		}
		sb.WriteByte('}')
		return sb.String()
	case ArrV:
		var sb strings.Builder
		sb.WriteByte('[')
		for _, f := range x.E {
			sb.WriteString(e.deepShow(st, f))
			sb.WriteByte(',')
		}
		sb.WriteByte(']')
		return sb.String()
	case StrV:
		if s := e.normStr(x); s.Conc {
			return fmt.Sprintf("%q", s.S)
		}
		return "<sym>"
	}
	return e.showValue(v)
}
