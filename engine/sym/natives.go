package sym

import (
	"fmt"
	"go/types"
	"strconv"
	"strings"
	"time"

	"verif/engine/smt"
)

const VPkg = "github.com/els0r/goProbe/v4/zz_verif"

func (e *Engine) reg(name string, f NativeFn) { e.natives[name] = f }

func (e *Engine) fresh(st *State, kind, name string, w int) *smt.Term {
	var t *smt.Term
	if w == 0 {
		t = e.C.Var(name, smt.BoolSort)
	} else {
		t = e.C.Var(name, smt.BV(w))
	}
	st.trace = append(st.trace, TraceEnt{Kind: kind, Name: t.Name, Terms: []*smt.Term{t}})
	return t
}

func concStrArg(v Value) string {
	if s, ok := v.(StrV); ok && s.Conc {
		return s.S
	}
	return "?"
}

func (e *Engine) freshBytes(st *State, n *smt.Term, name string) SliceV {
	ub := e.upperBound(st, n)
	if ub > 1<<16 {
		panic(unsupported("Bytes: unbounded symbolic length"))
	}
	a := e.C.Var(name, smt.Arr(8))
	ent := TraceEnt{Kind: "bytes", Name: a.Name, N: int(ub)}
	for i := uint64(0); i < ub; i++ {
		ent.Terms = append(ent.Terms, e.C.Select(a, e.k64(i)))
	}
	st.trace = append(st.trace, ent)
	id := e.newObj()
	st.heap[id] = BArrV{A: a, Len: n, EW: 8}
	return SliceV{Base: Ptr{Obj: id}, Off: e.k64(0), Len: n, Cap: n}
}

func registerNatives(e *Engine) {
	c := e.C
	V := VPkg + "."
	scalar := func(kind string, w int) NativeFn {
		return func(e *Engine, st *State, cc *CallCtx) (Value, bool) {
			return e.fresh(st, kind, kind, w), true
		}
	}
	e.reg(V+"U8", scalar("u8", 8))
	e.reg(V+"U16", scalar("u16", 16))
	e.reg(V+"U32", scalar("u32", 32))
	e.reg(V+"U64", scalar("u64", 64))
	e.reg(V+"I64", scalar("i64", 64))
	e.reg(V+"Int", scalar("int", 64))
	e.reg(V+"Bool", scalar("bool", 0))
	e.reg(V+"IntIn", func(e *Engine, st *State, cc *CallCtx) (Value, bool) {
		lo, hi := cc.Args[0].(*smt.Term), cc.Args[1].(*smt.Term)
		if lo == hi {
			return lo, true
		}
		x := e.fresh(st, "int", "in", 64)
		e.assume(st, c.And(c.Sle(lo, x), c.Sle(x, hi)))
		return x, true
	})
	e.reg(V+"OneOf", func(e *Engine, st *State, cc *CallCtx) (Value, bool) {
		s := cc.Args[0].(SliceV)
		arr, off, ln := e.bytesOfAny(st, s)
		x := e.fresh(st, "int", "oneof", 64)
		var alts []*smt.Term
		for i := uint64(0); i < ln.Val; i++ {
			alts = append(alts, c.Eq(x, c.Select(arr, c.Add(off, e.k64(i)))))
		}
		e.assume(st, c.Or(alts...))
		return x, true
	})
	e.reg(V+"Choice", func(e *Engine, st *State, cc *CallCtx) (Value, bool) {
		n := cc.Args[0].(*smt.Term)
		x := e.fresh(st, "int", "choice", 64)
		e.assume(st, c.Ult(x, n))
		return x, true
	})
	e.reg(V+"Bytes", func(e *Engine, st *State, cc *CallCtx) (Value, bool) {
		n := cc.Args[0].(*smt.Term)
		if e.feasible(st, c.Slt(n, e.k64(0))) != smt.Unsat {
			panic(unsupported("Bytes: possibly negative length"))
		}
		return e.freshBytes(st, n, "bytes"), true
	})
	e.reg(V+"Str", func(e *Engine, st *State, cc *CallCtx) (Value, bool) {
		n := cc.Args[0].(*smt.Term)
		s := e.freshBytes(st, n, "str")
		b := st.heap[s.Base.Obj].(BArrV)
		return StrV{A: b.A, Len: n}, true
	})
	e.reg(V+"Assume", func(e *Engine, st *State, cc *CallCtx) (Value, bool) {
		cond := cc.Args[0].(*smt.Term)
		if cond.IsFalse() {
			panic(pathDead{})
		}
		if cond.IsTrue() {
			return nil, true
		}
		if e.feasible(st, cond) == smt.Unsat {
			panic(pathDead{})
		}
		e.assume(st, cond)
		return nil, true
	})
	e.reg(V+"Assert", func(e *Engine, st *State, cc *CallCtx) (Value, bool) {
		cond := cc.Args[0].(*smt.Term)
		msg := concStrArg(cc.Args[1])
		e.rep.AssertsChecked++
		if cond.IsTrue() {
			e.rep.AssertsProved++
			return nil, true
		}
		// decide pc ∧ ¬cond with the heavy portfolio
		as := append(e.relevant(st.pc, cond), c.Not(cond))
		r, _, _ := e.S.CheckWith(as, nil, true)
		switch r {
		case smt.Unsat:
			e.rep.AssertsProved++
			e.assume(st, cond)
			return nil, true
		case smt.Unknown:
			e.rep.Inconclusive = appendUniq(e.rep.Inconclusive, "solver unknown on assertion: "+msg)
			e.assume(st, cond)
			return nil, true
		}
		e.violationAt(st, "assert", msg, e.site(st), c.Not(cond))
		// continue on the side where the assertion holds (if feasible)
		if e.feasible(st, cond) == smt.Unsat {
			panic(pathDead{})
		}
		e.assume(st, cond)
		return nil, true
	})
	e.reg(V+"Reach", func(e *Engine, st *State, cc *CallCtx) (Value, bool) {
		tag := concStrArg(cc.Args[0])
		ri := e.rep.Reached[tag]
		if ri == nil {
			ri = &ReachInfo{}
			e.rep.Reached[tag] = ri
		}
		if ri.Count == 0 {
			r, vals := e.model(st, nil, e.traceWants(st.trace))
			if r == smt.Sat {
				ri.Trace = st.trace
				ri.Vals = splitVals(st.trace, vals)
				ri.Count++
			} else if r == smt.Unknown {
				e.rep.Inconclusive = appendUniq(e.rep.Inconclusive, "solver unknown on reach witness "+tag)
			}
		} else {
			ri.Count++
		}
		return nil, true
	})
	e.reg(V+"Note", func(e *Engine, st *State, cc *CallCtx) (Value, bool) {
		st.notes = append(st.notes, concStrArg(cc.Args[0]))
		return nil, true
	})
	e.reg(V+"MayPanicBegin", func(e *Engine, st *State, cc *CallCtx) (Value, bool) {
		st.mayPanic++
		return nil, true
	})
	e.reg(V+"MayPanicEnd", func(e *Engine, st *State, cc *CallCtx) (Value, bool) {
		st.mayPanic--
		return nil, true
	})
	e.reg(V+"Param", func(e *Engine, st *State, cc *CallCtx) (Value, bool) {
		if v, ok := e.Params[concStrArg(cc.Args[0])]; ok {
			return c.Const(uint64(int64(v)), 64), true
		}
		return cc.Args[1], true
	})
	e.reg(V+"Concretize", func(e *Engine, st *State, cc *CallCtx) (Value, bool) {
		x := cc.Args[0].(*smt.Term)
		if x.IsConst() {
			return x, true
		}
		var vals []uint64
		if m, ok := st.memo["concretize"]; ok {
			vals = m.([]uint64)
		} else {
			var excl []*smt.Term
			for len(vals) <= 256 {
				r, mv := e.model(st, excl, []*smt.Term{x})
				if r == smt.Unsat {
					break
				}
				if r != smt.Sat {
					panic(unsupported("Concretize: solver unknown"))
				}
				vals = append(vals, mv[0])
				excl = append(excl, c.Ne(x, c.Const(mv[0], x.S.W)))
			}
			if len(vals) > 256 {
				panic(unsupported("Concretize: more than 256 values"))
			}
			if st.memo == nil {
				st.memo = map[string]interface{}{}
			}
			st.memo["concretize"] = vals
		}
		for _, k := range vals {
			kt := c.Const(k, x.S.W)
			if e.branch(st, c.Eq(x, kt)) {
				return kt, true
			}
		}
		panic(pathDead{})
	})
	e.reg(V+"IsSymbolic", func(e *Engine, st *State, cc *CallCtx) (Value, bool) { return c.True(), true })
	// Fresh opaque error value
	e.reg(V+"Err", func(e *Engine, st *State, cc *CallCtx) (Value, bool) {
		return e.mkError(st, concStrArg(cc.Args[0])), true
	})

	// Parser stubs: return an arbitrary value of the documented range (the text is a placeholder),
	// or the value the harness queued with PushIP / PushNum.
	popQ := func(st *State, id int) (Value, bool) {
		o, ok := st.heap[id]
		if !ok {
			return nil, false
		}
		q := o.(NativeV).V.([]Value)
		if len(q) == 0 {
			return nil, false
		}
		st.dirty = true
		st.heap[id] = NativeV{Tag: "queue", V: append([]Value(nil), q[1:]...)}
		return q[0], true
	}
	peekQ := func(st *State, id int) (Value, bool) {
		o, ok := st.heap[id]
		if !ok {
			return nil, false
		}
		q := o.(NativeV).V.([]Value)
		if len(q) == 0 {
			return nil, false
		}
		return q[0], true
	}
	pushQ := func(st *State, id int, x Value) {
		var q []Value
		if o, ok := st.heap[id]; ok {
			q = o.(NativeV).V.([]Value)
		}
		st.dirty = true
		st.heap[id] = NativeV{Tag: "queue", V: append(append([]Value(nil), q...), x)}
	}
	// text-keyed registries: SetIP / SetNum fix what the parser stubs return for a given placeholder text
	getReg := func(st *State, id int) map[string]Value {
		if o, ok := st.heap[id]; ok {
			return o.(NativeV).V.(map[string]Value)
		}
		return nil
	}
	setReg := func(st *State, id int, k string, x Value) {
		old := getReg(st, id)
		nm := make(map[string]Value, len(old)+1)
		for kk, vv := range old {
			nm[kk] = vv
		}
		nm[k] = x
		st.dirty = true
		st.heap[id] = NativeV{Tag: "reg", V: nm}
	}
	e.reg(V+"SetIP", func(e *Engine, st *State, cc *CallCtx) (Value, bool) {
		setReg(st, ipRegID, concStrArg(e.normStr(cc.Args[0].(StrV))), cc.Args[1])
		return nil, true
	})
	e.reg(V+"SetNum", func(e *Engine, st *State, cc *CallCtx) (Value, bool) {
		setReg(st, numRegID, concStrArg(e.normStr(cc.Args[0].(StrV))), cc.Args[1])
		return nil, true
	})
	e.reg(V+"PushIP", func(e *Engine, st *State, cc *CallCtx) (Value, bool) {
		pushQ(st, ipQueueID, cc.Args[0])
		return nil, true
	})
	e.reg(V+"PushNum", func(e *Engine, st *State, cc *CallCtx) (Value, bool) {
		pushQ(st, numQueueID, cc.Args[0])
		return nil, true
	})
	e.reg(V+"IPStringToBytes", func(e *Engine, st *State, cc *CallCtx) (Value, bool) {
		s := e.normStr(cc.Args[0].(StrV))
		if !s.Conc {
			panic(unsupported("IPStringToBytes stub needs a concrete placeholder"))
		}
		if s.S == "" || (strings.HasPrefix(s.S, "bad") || strings.HasPrefix(s.S, "!")) {
			return TupleV{e.Zero(types.NewSlice(types.Typ[types.Uint8])), c.False(), e.mkError(st, "IP parse: incorrect format")}, true
		}
		var qv Value
		var okq bool
		if rv, ok := getReg(st, ipRegID)[s.S]; ok {
			qv, okq = rv, true
		} else {
			qv, okq = popQ(st, ipQueueID)
		}
		if okq {
			src := qv.(SliceV)
			arr, off, ln := e.bytesOf(st, src)
			if !ln.IsConst() {
				panic(unsupported("queued IP of symbolic length"))
			}
			na := e.copyCells(st, c.ConstArr(8, c.Const(0, 8)), e.k64(0), arr, off, ln)
			id := e.newObj()
			st.heap[id] = BArrV{A: na, Len: ln, EW: 8}
			return TupleV{SliceV{Base: Ptr{Obj: id}, Off: e.k64(0), Len: ln, Cap: ln}, c.Bool(ln.Val == 4), IfaceV{}}, true
		}
		n := uint64(4)
		if strings.Contains(s.S, ":") {
			n = 16
		}
		b := e.freshBytes(st, e.k64(n), "ip")
		return TupleV{b, c.Bool(n == 4), IfaceV{}}, true
	})
	parseStub := func(signed bool) NativeFn {
		return func(e *Engine, st *State, cc *CallCtx) (Value, bool) {
			s := e.normStr(cc.Args[0].(StrV))
			if s.Conc && (s.S == "" || (strings.HasPrefix(s.S, "bad") || strings.HasPrefix(s.S, "!"))) {
				return TupleV{e.k64(0), e.mkError(st, "strconv: invalid syntax")}, true
			}
			bits := cc.Args[2].(*smt.Term)
			if !bits.IsConst() {
				panic(unsupported("Parse stub with symbolic bit size"))
			}
			bw := bits.Val
			if bw == 0 {
				bw = 64
			}
			var regHit bool
			var qv Value
			var ok bool
			if s.Conc {
				qv, regHit = getReg(st, numRegID)[s.S]
			}
			if !regHit {
				qv, ok = peekQ(st, numQueueID)
			}
			if regHit || ok {
				x := qv.(*smt.Term)
				inRange := c.True()
				if bw < 64 {
					if signed {
						lim := int64(1) << (bw - 1)
						inRange = c.And(c.Sge(x, c.Const(uint64(-lim), 64)), c.Slt(x, c.Const(uint64(lim), 64)))
					} else {
						inRange = c.Ult(x, c.Const(uint64(1)<<bw, 64))
					}
				}
				okRange := e.branch(st, inRange) // before the queue is popped (no mutation before a fork)
				if !regHit {
					popQ(st, numQueueID)
				}
				if okRange {
					return TupleV{x, IfaceV{}}, true
				}
				return TupleV{e.k64(0), e.mkError(st, "strconv: value out of range")}, true
			}
			x := e.fresh(st, "i64", "parsed", 64)
			if bw < 64 {
				if signed {
					lim := int64(1) << (bw - 1)
					e.assume(st, c.And(c.Sge(x, c.Const(uint64(-lim), 64)), c.Slt(x, c.Const(uint64(lim), 64))))
				} else {
					e.assume(st, c.Ult(x, c.Const(uint64(1)<<bw, 64)))
				}
			}
			return TupleV{x, IfaceV{}}, true
		}
	}
	// ParseDuration stub: the duration registered for the placeholder text (nanoseconds)
	e.reg(V+"ParseDuration", func(e *Engine, st *State, cc *CallCtx) (Value, bool) {
		s := e.normStr(cc.Args[0].(StrV))
		if !s.Conc || s.S == "" || (strings.HasPrefix(s.S, "bad") || strings.HasPrefix(s.S, "!")) {
			return TupleV{e.k64(0), e.mkError(st, "time: invalid duration")}, true
		}
		if x, ok := getReg(st, numRegID)[s.S]; ok {
			return TupleV{x, IfaceV{}}, true
		}
		return TupleV{e.fresh(st, "i64", "duration", 64), IfaceV{}}, true
	})
	// NowSec: the clock as an arbitrary non-decreasing sequence of seconds
	e.reg(V+"NowSec", func(e *Engine, st *State, cc *CallCtx) (Value, bool) {
		x := e.fresh(st, "i64", "now", 64)
		e.assume(st, c.And(c.Sge(x, c.Const(1000000000, 64)), c.Sle(x, c.Const(4000000000, 64))))
		if last, ok := st.heap[clockID]; ok {
			e.assume(st, c.Sge(x, last.(*smt.Term)))
		}
		st.dirty = true
		st.heap[clockID] = x
		return x, true
	})
	e.reg(V+"ParseInt", parseStub(true))
	e.reg(V+"ParseUint", parseStub(false))
	// Pure*: run a side-effect-free closure on all its paths and merge the results into ONE term
	// (callee summarisation): the caller continues on a single path instead of one per callee path.
	pure := func(e *Engine, st *State, cc *CallCtx) (Value, bool) {
		fv := cc.Args[0].(FuncV)
		return e.summarise(st, fv, nil), true
	}
	e.reg(V+"PureBool", pure)
	e.reg(V+"PureInt", pure)
	// EqBytes: byte-wise equality of two slices as ONE term (no per-byte path split)
	e.reg(V+"EqBytes", func(e *Engine, st *State, cc *CallCtx) (Value, bool) {
		a, b := cc.Args[0].(SliceV), cc.Args[1].(SliceV)
		aa, ao, al := e.bytesOf(st, a)
		ba, bo, bl := e.bytesOf(st, b)
		var n uint64
		switch {
		case al.IsConst():
			n = al.Val
		case bl.IsConst():
			n = bl.Val
		default:
			n = e.upperBound(st, al)
			if n > 4096 {
				panic(unsupported("EqBytes on unbounded slices"))
			}
		}
		cs := []*smt.Term{c.Eq(al, bl)}
		for i := uint64(0); i < n; i++ {
			ki := e.k64(i)
			cs = append(cs, c.Or(c.Uge(ki, al), c.Eq(c.Select(aa, c.Add(ao, ki)), c.Select(ba, c.Add(bo, ki)))))
		}
		return c.And(cs...), true
	})
	// SetHash: the harness fixes the hash of a key (concrete or symbolic term) before it is used.
	e.reg(V+"SetHash", func(e *Engine, st *State, cc *CallCtx) (Value, bool) {
		key := cc.Args[0].(SliceV)
		arr, off, ln := e.bytesOf(st, key)
		if !ln.IsConst() {
			panic(unsupported("SetHash on a key of symbolic length"))
		}
		bs := make([]*smt.Term, ln.Val)
		for i := range bs {
			bs[i] = c.Select(arr, c.Add(off, e.k64(uint64(i))))
		}
		var reg []hashEnt
		if r, ok := st.heap[hashRegID]; ok {
			reg = r.(NativeV).V.([]hashEnt)
		}
		nreg := append(append([]hashEnt(nil), reg...), hashEnt{key: bs, hash: cc.Args[1].(*smt.Term)})
		st.dirty = true
		st.heap[hashRegID] = NativeV{Tag: "hashreg", V: nreg}
		return nil, true
	})
	// HashSeed: the hash function as an arbitrary function of the key bytes (equal keys => equal hash).
	// Keys seen so far are kept in a per-path registry; a new key gets a fresh symbolic 64-bit hash.
	e.reg(V+"HashSeed", func(e *Engine, st *State, cc *CallCtx) (Value, bool) {
		key := cc.Args[0].(SliceV)
		arr, off, ln := e.bytesOf(st, key)
		if !ln.IsConst() {
			panic(unsupported("HashSeed on a key of symbolic length"))
		}
		n := int(ln.Val)
		bs := make([]*smt.Term, n)
		for i := range bs {
			bs[i] = c.Select(arr, c.Add(off, e.k64(uint64(i))))
		}
		var reg []hashEnt
		if r, ok := st.heap[hashRegID]; ok {
			reg = r.(NativeV).V.([]hashEnt)
		}
		for _, ent := range reg {
			if len(ent.key) != n {
				continue
			}
			cs := make([]*smt.Term, n)
			for i := range bs {
				cs[i] = c.Eq(bs[i], ent.key[i])
			}
			if e.branch(st, c.And(cs...)) {
				return ent.hash, true
			}
		}
		h := e.fresh(st, "u64", "hash", 64)
		nreg := append(append([]hashEnt(nil), reg...), hashEnt{key: bs, hash: h})
		st.dirty = true
		st.heap[hashRegID] = NativeV{Tag: "hashreg", V: nreg}
		return h, true
	})

	registerStd(e)
	registerCompression(e)
}

// summarise runs fv(args...) on all its paths from the current state and merges the scalar results into
// one term (callee summarisation). The callee must not have side effects the caller depends on.
func (e *Engine) summarise(st *State, fv FuncV, args []Value) *smt.Term {
	c := e.C
	if fv.Fn == nil {
		panic(unsupported("summarise: not a Go function"))
	}
	type outcome struct {
		cond *smt.Term
		val  *smt.Term
	}
	var outs []outcome
	base := len(st.pc)
	child := st.clone(e)
	child.frames = nil
	child.forced, child.fpos, child.decided = nil, 0, nil
	child.panic_, child.recovered = nil, false
	fr := e.pushFrame(child, fv.Fn, args, fv.Bind, nil, retNormal)
	fr.onRet = func(s2 *State, res Value) {
		t, ok := res.(*smt.Term)
		if !ok {
			panic(unsupported("summarise: result is not a scalar"))
		}
		outs = append(outs, outcome{cond: c.And(s2.pc[base:]...), val: t})
		s2.done = true
	}
	saved := e.work
	e.work = []*State{child}
	for len(e.work) > 0 {
		s2 := e.work[len(e.work)-1]
		e.work = e.work[:len(e.work)-1]
		e.runPath(s2)
		e.rep.Steps += s2.steps - st.steps
		if !e.deadline.IsZero() && time.Now().After(e.deadline) {
			e.work = nil
			e.rep.Inconclusive = appendUniq(e.rep.Inconclusive, "time budget exhausted inside a summarised call (reduced coverage)")
		}
	}
	e.work = saved
	if len(outs) == 0 {
		panic(pathDead{}) // every path of the callee ended (panic reported, dead or unsupported)
	}
	res := outs[len(outs)-1].val
	for i := len(outs) - 2; i >= 0; i-- {
		res = c.Ite(outs[i].cond, outs[i].val, res)
	}
	var conds []*smt.Term
	for _, o := range outs {
		conds = append(conds, o.cond)
	}
	if cover := c.Or(conds...); !cover.IsTrue() {
		e.assume(st, cover)
	}
	return res
}

const (
	hashRegID  = -1
	ipQueueID  = -2
	numQueueID = -3
	ipRegID    = -4
	numRegID   = -5
	clockID    = -7
)

type hashEnt struct {
	key  []*smt.Term
	hash *smt.Term
}

func boolTerm(e *Engine, b bool) *smt.Term { return e.C.Bool(b) }

func allConcStr(args []Value) ([]string, bool) {
	out := make([]string, len(args))
	for i, a := range args {
		s, ok := a.(StrV)
		if !ok || !s.Conc {
			return nil, false
		}
		out[i] = s.S
	}
	return out, true
}

func (e *Engine) strSliceVal(st *State, ss []string) Value {
	el := make([]Value, len(ss))
	for i, s := range ss {
		el[i] = StrV{Conc: true, S: s}
	}
	id := e.newObj()
	st.heap[id] = ArrV{E: el}
	n := e.k64(uint64(len(ss)))
	if len(ss) == 0 {
		return SliceV{Base: Ptr{Obj: id}, Off: e.k64(0), Len: n, Cap: n}
	}
	return SliceV{Base: Ptr{Obj: id}, Off: e.k64(0), Len: n, Cap: n}
}

func (e *Engine) concStrSlice(st *State, v Value) ([]string, bool) {
	s := v.(SliceV)
	if s.Nil || s.Base.Obj == 0 {
		return nil, true
	}
	if !s.Len.IsConst() || !s.Off.IsConst() {
		return nil, false
	}
	a := e.objCell(st, s.Base).(ArrV)
	var out []string
	for _, x := range a.E[s.Off.Val : s.Off.Val+s.Len.Val] {
		xs, ok := x.(StrV)
		if !ok {
			return nil, false
		}
		xs = e.normStr(xs)
		if !xs.Conc {
			return nil, false
		}
		out = append(out, xs.S)
	}
	return out, true
}

func (e *Engine) nilErr() Value { return IfaceV{} }

// fmtValue renders a value for fmt-like natives (best effort, concrete only).
func (e *Engine) fmtValue(st *State, v Value) string {
	switch x := v.(type) {
	case IfaceV:
		if x.T == nil {
			return "<nil>"
		}
		if p, ok := x.V.(Ptr); ok && !p.IsNil() {
			if o, ok := st.heap[p.Obj].(StructV); ok && len(o.F) > 0 {
				if s, ok := o.F[0].(StrV); ok && s.Conc && strings.Contains(x.T.String(), "error") {
					return s.S
				}
			}
		}
		return e.fmtValue(st, x.V)
	case *smt.Term:
		if x.IsConst() {
			if x.S.K == smt.KBool {
				return strconv.FormatBool(x.Val == 1)
			}
			return strconv.FormatUint(x.Val, 10)
		}
		return "<sym>"
	case StrV:
		if s := e.normStr(x); s.Conc {
			return s.S
		}
		return "<symstr>"
	case FloatV:
		return strconv.FormatFloat(float64(x), 'g', -1, 64)
	}
	return fmt.Sprintf("<%T>", v)
}

func (e *Engine) variadicArgs(st *State, v Value) []Value {
	s, ok := v.(SliceV)
	if !ok || s.Nil || s.Base.Obj == 0 {
		return nil
	}
	a := e.objCell(st, s.Base).(ArrV)
	return a.E[s.Off.Val : s.Off.Val+s.Len.Val]
}

func (e *Engine) sprintf(st *State, format string, args []Value) string {
	var sb strings.Builder
	ai := 0
	for i := 0; i < len(format); i++ {
		ch := format[i]
		if ch != '%' || i+1 >= len(format) {
			sb.WriteByte(ch)
			continue
		}
		i++
		for i < len(format) && strings.ContainsRune("+-# 0123456789.", rune(format[i])) {
			i++
		}
		if i >= len(format) {
			break
		}
		if format[i] == '%' {
			sb.WriteByte('%')
			continue
		}
		if ai < len(args) {
			s := e.fmtValue(st, args[ai])
			if format[i] == 'q' {
				s = strconv.Quote(s)
			}
			sb.WriteString(s)
			ai++
		} else {
			sb.WriteString("%!" + string(format[i]) + "(MISSING)")
		}
	}
	return sb.String()
}

// mkWrapError builds a *fmt.wrapError{msg, err} so that errors.Is/Unwrap work through SSA.
func (e *Engine) mkWrapError(st *State, msg string, inner Value) Value {
	if p := e.Prog.ImportedPackage("fmt"); p != nil {
		if t := p.Type("wrapError"); t != nil {
			id := e.newObj()
			st.heap[id] = StructV{F: []Value{StrV{Conc: true, S: msg}, inner}}
			return IfaceV{T: types.NewPointer(t.Type()), V: Ptr{Obj: id}}
		}
	}
	return e.mkError(st, msg)
}
