package sym

import (
	"go/types"
	"regexp"
	"time"
	"strconv"
	"strings"

	"verif/engine/smt"
)

func registerStd(e *Engine) {
	c := e.C
	nop := func(e *Engine, st *State, cc *CallCtx) (Value, bool) {
		if cc.Fn != nil {
			return e.zeroResults(cc.Fn.Signature.Results()), true
		}
		return nil, true
	}
	for _, n := range []string{
		"(*sync.Mutex).Lock", "(*sync.Mutex).Unlock", "(*sync.RWMutex).Lock", "(*sync.RWMutex).Unlock",
		"(*sync.RWMutex).RLock", "(*sync.RWMutex).RUnlock", "(*sync.WaitGroup).Add", "(*sync.WaitGroup).Done",
		"(*sync.WaitGroup).Wait", "runtime.KeepAlive", "runtime.GC", "runtime.Gosched", "(*sync.Mutex).TryLock",
		"runtime/debug.FreeOSMemory", "runtime.SetFinalizer", "(*sync.WaitGroup).Go",
	} {
		e.reg(n, nop)
	}
	for _, n := range []string{"golang.org/x/sys/unix.Getpagesize", "syscall.Getpagesize", "os.Getpagesize"} {
		e.reg(n, func(e *Engine, st *State, cc *CallCtx) (Value, bool) { return c.Const(4096, 64), true })
	}
	e.reg("github.com/els0r/goProbe/v4/pkg/types/hashmap.runtimeFastrand64", func(e *Engine, st *State, cc *CallCtx) (Value, bool) {
		return c.Const(0x9E3779B97F4A7C15, 64), true
	})
	e.reg("(time.Duration).Seconds", func(e *Engine, st *State, cc *CallCtx) (Value, bool) {
		d := cc.Args[0].(*smt.Term)
		if d.IsConst() {
			return FloatV(time.Duration(d.SVal()).Seconds()), true
		}
		return FloatSym{Sec: c.SDiv(d, c.Const(1000000000, 64))}, true
	})
	e.reg("time.runtimeIsBubbled", func(e *Engine, st *State, cc *CallCtx) (Value, bool) { return c.False(), true })
	e.reg("time.runtimeNow", func(e *Engine, st *State, cc *CallCtx) (Value, bool) {
		return TupleV{c.Const(1700000000, 64), c.Const(0, 32), c.Const(1000000000, 64)}, true
	})
	e.reg("time.now", func(e *Engine, st *State, cc *CallCtx) (Value, bool) {
		return TupleV{c.Const(1700000000, 64), c.Const(0, 32), c.Const(1000000000, 64)}, true
	})
	e.reg("time.runtimeNano", func(e *Engine, st *State, cc *CallCtx) (Value, bool) { return c.Const(1000000000, 64), true })
	e.reg("time.registerLoadFromEmbeddedTZData", nop)
	e.reg("time.initLocal", nop) // the local time zone is UTC (an unset zone list means UTC)
	// sort.Slice / sort.SliceStable (reflection-based in std): all pairwise less(i,j) are evaluated on the
	// unmodified slice (summarised calls), the order is decided by branching on them, and the permutation is
	// applied in one step at the end (stable insertion order; equal elements keep their order).
	sortSlice := func(e *Engine, st *State, cc *CallCtx) (Value, bool) {
		iv, ok := cc.Args[0].(IfaceV)
		if !ok {
			panic(unsupported("sort.Slice: argument is not an interface"))
		}
		sl, ok := iv.V.(SliceV)
		if !ok {
			panic(unsupported("sort.Slice: not a slice"))
		}
		less := cc.Args[1].(FuncV)
		if sl.Nil || sl.Base.Obj == 0 {
			return nil, true
		}
		if !sl.Len.IsConst() || !sl.Off.IsConst() {
			panic(unsupported("sort.Slice: symbolic slice bounds"))
		}
		n, off := int(sl.Len.Val), int(sl.Off.Val)
		if n < 2 {
			return nil, true
		}
		if n > 12 {
			panic(unsupported("sort.Slice: more than 12 elements"))
		}
		lt := func(i, j int) bool { // decided on the original order
			t := e.summarise(st, less, []Value{e.k64(uint64(i)), e.k64(uint64(j))})
			return e.branch(st, t)
		}
		perm := []int{0}
		for i := 1; i < n; i++ {
			pos := len(perm)
			for pos > 0 && lt(i, perm[pos-1]) {
				pos--
			}
			perm = append(perm[:pos], append([]int{i}, perm[pos:]...)...)
		}
		cell := e.objCell(st, sl.Base)
		switch a := cell.(type) {
		case ArrV:
			na := ArrV{E: append([]Value(nil), a.E...)}
			for k, src := range perm {
				na.E[off+k] = a.E[off+src]
			}
			e.setCell(st, sl.Base, na)
		case BArrV:
			arr := a.A
			for k, src := range perm {
				arr = c.Store(arr, e.k64(uint64(off+k)), c.Select(a.A, e.k64(uint64(off+src))))
			}
			a.A = arr
			e.setCell(st, Ptr{Obj: sl.Base.Obj, Path: sl.Base.Path}, a)
		default:
			panic(unsupported("sort.Slice: unexpected backing store"))
		}
		return nil, true
	}
	e.reg("sort.Slice", sortSlice)
	e.reg("sort.SliceStable", sortSlice)
	// bytes.Compare / bytes.Equal on byte slices as terms
	e.reg("bytes.Compare", func(e *Engine, st *State, cc *CallCtx) (Value, bool) {
		a := e.sliceToStr(st, cc.Args[0].(SliceV))
		b := e.sliceToStr(st, cc.Args[1].(SliceV))
		if a.Conc && b.Conc {
			return c.Const(uint64(int64(strings.Compare(a.S, b.S))), 64), true
		}
		lt, eq := e.strLess(st, a, b)
		return c.Ite(lt, c.Const(^uint64(0), 64), c.Ite(eq, c.Const(0, 64), c.Const(1, 64))), true
	})
	e.reg("bytes.Equal", func(e *Engine, st *State, cc *CallCtx) (Value, bool) {
		a := e.sliceToStr(st, cc.Args[0].(SliceV))
		b := e.sliceToStr(st, cc.Args[1].(SliceV))
		return e.strEq(st, a, b), true
	})
	// sync.Pool: LIFO model (Get returns the most recently Put item if any, else New())
	poolKey := func(p Ptr) int { return -(p.Obj*64 + len(p.Path) + 1000000) }
	e.reg("(*sync.Pool).Put", func(e *Engine, st *State, cc *CallCtx) (Value, bool) {
		p := cc.Args[0].(Ptr)
		var items []Value
		if o, ok := st.heap[poolKey(p)]; ok {
			items = o.(NativeV).V.([]Value)
		}
		items = append(append([]Value(nil), items...), cc.Args[1])
		st.dirty = true
		st.heap[poolKey(p)] = NativeV{Tag: "pool", V: items}
		return nil, true
	})
	e.reg("(*sync.Pool).Get", func(e *Engine, st *State, cc *CallCtx) (Value, bool) {
		p := cc.Args[0].(Ptr)
		if o, ok := st.heap[poolKey(p)]; ok {
			items := o.(NativeV).V.([]Value)
			if len(items) > 0 {
				st.dirty = true
				st.heap[poolKey(p)] = NativeV{Tag: "pool", V: append([]Value(nil), items[:len(items)-1]...)}
				return items[len(items)-1], true
			}
		}
		// call New if set
		pt := cc.Fn.Signature.Recv().Type().(*types.Pointer).Elem().Underlying().(*types.Struct)
		cell := e.objCell(st, Ptr{Obj: p.Obj, Path: p.Path}).(StructV)
		for i := 0; i < pt.NumFields(); i++ {
			if pt.Field(i).Name() == "New" {
				if fv, ok := cell.F[i].(FuncV); ok && (fv.Fn != nil || fv.Native != "") {
					e.invokeValue(st, fv, nil, cc.Dest, cc.Mode, nil)
					return nil, false
				}
			}
		}
		return IfaceV{}, true
	})
	// context.WithTimeout / WithCancel: an opaque context whose Done() channel is a timer that fires only when
	// nothing else in a select is ready (sequential model of "wait up to the timeout")
	ctxMk := func(e *Engine, st *State, cc *CallCtx) (Value, bool) {
		ctx := IfaceV{T: types.Typ[types.UnsafePointer], V: NativeV{Tag: "ctx-timeout"}}
		return TupleV{ctx, FuncV{Native: "blackhole:cancel"}}, true
	}
	e.reg("context.WithTimeout", ctxMk)
	e.reg("context.WithCancel", ctxMk)
	e.reg("context.WithDeadline", ctxMk)
	e.reg("native:ctx-timeout.Done", func(e *Engine, st *State, cc *CallCtx) (Value, bool) {
		id := e.newObj()
		st.dirty = true
		st.heap[id] = NativeV{Tag: "chan-timer"}
		return ChanRef{Obj: id}, true
	})
	e.reg("native:ctx-timeout.Err", func(e *Engine, st *State, cc *CallCtx) (Value, bool) { return IfaceV{}, true })
	e.reg("time.After", func(e *Engine, st *State, cc *CallCtx) (Value, bool) {
		id := e.newObj()
		st.dirty = true
		st.heap[id] = NativeV{Tag: "chan-timer"}
		return ChanRef{Obj: id}, true
	})
	// time.NewTimer: a *time.Timer whose channel C is the same kind of timer (fires only when nothing else is ready)
	e.reg("time.NewTimer", func(e *Engine, st *State, cc *CallCtx) (Value, bool) {
		tt := cc.Fn.Signature.Results().At(0).Type().(*types.Pointer).Elem()
		sv := e.Zero(tt).(StructV)
		ts := tt.Underlying().(*types.Struct)
		chID := e.newObj()
		st.dirty = true
		st.heap[chID] = NativeV{Tag: "chan-timer"}
		for i := 0; i < ts.NumFields(); i++ {
			if ts.Field(i).Name() == "C" {
				sv.F[i] = ChanRef{Obj: chID}
			}
		}
		id := e.newObj()
		st.heap[id] = sv
		return Ptr{Obj: id}, true
	})
	e.reg("(*time.Timer).Stop", func(e *Engine, st *State, cc *CallCtx) (Value, bool) { return c.True(), true })
	// regexp: opaque native regexps, usable on concrete strings only
	reCompile := func(must bool) NativeFn {
		return func(e *Engine, st *State, cc *CallCtx) (Value, bool) {
			s := e.normStr(cc.Args[0].(StrV))
			if !s.Conc {
				panic(unsupported("regexp.Compile on symbolic pattern"))
			}
			re, err := regexp.Compile(s.S)
			if must {
				if err != nil {
					e.doPanic(st, &PanicInfo{Val: IfaceV{T: types.Typ[types.String], V: StrV{Conc: true, S: err.Error()}}, Msg: "regexp: " + err.Error(), Site: e.site(st)})
					return nil, false
				}
				return NativeV{Tag: "regexp", V: re}, true
			}
			if err != nil {
				return TupleV{Ptr{}, e.mkError(st, err.Error())}, true
			}
			return TupleV{NativeV{Tag: "regexp", V: re}, IfaceV{}}, true
		}
	}
	e.reg("regexp.MustCompile", reCompile(true))
	e.reg("regexp.Compile", reCompile(false))
	reArg := func(v Value, what string) *regexp.Regexp {
		nv, ok := v.(NativeV)
		if !ok || nv.Tag != "regexp" {
			panic(unsupported(what + " on a non-native regexp"))
		}
		return nv.V.(*regexp.Regexp)
	}
	e.reg("(*regexp.Regexp).MatchString", func(e *Engine, st *State, cc *CallCtx) (Value, bool) {
		s := e.normStr(cc.Args[1].(StrV))
		if !s.Conc {
			panic(unsupported("regexp match on symbolic string"))
		}
		return c.Bool(reArg(cc.Args[0], "MatchString").MatchString(s.S)), true
	})
	e.reg("(*regexp.Regexp).FindStringSubmatch", func(e *Engine, st *State, cc *CallCtx) (Value, bool) {
		s := e.normStr(cc.Args[1].(StrV))
		if !s.Conc {
			panic(unsupported("regexp match on symbolic string"))
		}
		m := reArg(cc.Args[0], "FindStringSubmatch").FindStringSubmatch(s.S)
		if m == nil {
			return e.Zero(types.NewSlice(types.Typ[types.String])), true
		}
		return e.strSliceVal(st, m), true
	})
	e.reg("(*regexp.Regexp).ReplaceAllString", func(e *Engine, st *State, cc *CallCtx) (Value, bool) {
		s, r := e.normStr(cc.Args[1].(StrV)), e.normStr(cc.Args[2].(StrV))
		if !s.Conc || !r.Conc {
			panic(unsupported("regexp replace on symbolic string"))
		}
		return StrV{Conc: true, S: reArg(cc.Args[0], "ReplaceAllString").ReplaceAllString(s.S, r.S)}, true
	})
	e.reg("(*regexp.Regexp).LiteralPrefix", func(e *Engine, st *State, cc *CallCtx) (Value, bool) {
		pre, complete := reArg(cc.Args[0], "LiteralPrefix").LiteralPrefix()
		return TupleV{StrV{Conc: true, S: pre}, c.Bool(complete)}, true
	})
	e.reg("(*regexp.Regexp).String", func(e *Engine, st *State, cc *CallCtx) (Value, bool) {
		return StrV{Conc: true, S: reArg(cc.Args[0], "String").String()}, true
	})
	e.reg("(*sync.Once).Do", func(e *Engine, st *State, cc *CallCtx) (Value, bool) {
		p := cc.Args[0].(Ptr)
		key := Ptr{Obj: p.Obj, Path: p.Path}
		o := e.objCell(st, key).(StructV)
		// field 0 of sync.Once is `_ noCopy`, field 1 `done atomic.Uint32` (layout differs by version): use a side table
		_ = o
		tag := "once-done"
		doneID := -p.Obj*1000 - len(p.Path)
		if _, ok := st.heap[doneID]; ok {
			return nil, true
		}
		st.heap[doneID] = NativeV{Tag: tag}
		e.invokeValue(st, cc.Args[1], nil, cc.Dest, cc.Mode, nil)
		return nil, false
	})
	e.reg("errors.Is", func(e *Engine, st *State, cc *CallCtx) (Value, bool) {
		err, target := cc.Args[0].(IfaceV), cc.Args[1].(IfaceV)
		for depth := 0; depth < 16; depth++ {
			if err.T == nil {
				return c.Bool(target.T == nil), true
			}
			if eq := e.eq(st, err, target); eq.IsTrue() {
				return eq, true
			} else if !eq.IsConst() {
				panic(unsupported("errors.Is on symbolic errors"))
			}
			// unwrap *fmt.wrapError
			if strings.HasSuffix(err.T.String(), "fmt.wrapError") {
				o := st.heap[err.V.(Ptr).Obj].(StructV)
				err = o.F[1].(IfaceV)
				continue
			}
			// unwrap *fs.PathError{Op, Path, Err}
			if strings.HasSuffix(err.T.String(), "fs.PathError") {
				if p, ok := err.V.(Ptr); ok && !p.IsNil() {
					o := e.objCell(st, p).(StructV)
					err = o.F[2].(IfaceV)
					continue
				}
			}
			return c.False(), true
		}
		return c.False(), true
	})
	// errors.As(err, &target) for a target of concrete (non-interface) type: walks the same wrappers as errors.Is
	e.reg("errors.As", func(e *Engine, st *State, cc *CallCtx) (Value, bool) {
		err := cc.Args[0].(IfaceV)
		tgt := cc.Args[1].(IfaceV)
		pt, ok := tgt.T.(*types.Pointer)
		if !ok {
			panic(unsupported("errors.As: target is not a pointer"))
		}
		want := pt.Elem()
		if types.IsInterface(want) {
			panic(unsupported("errors.As with an interface target"))
		}
		for depth := 0; depth < 16 && err.T != nil; depth++ {
			if types.Identical(err.T, want) {
				e.store(st, tgt.V.(Ptr), err.V, want)
				return c.True(), true
			}
			if strings.HasSuffix(err.T.String(), "fmt.wrapError") {
				o := st.heap[err.V.(Ptr).Obj].(StructV)
				err = o.F[1].(IfaceV)
				continue
			}
			if strings.HasSuffix(err.T.String(), "fs.PathError") {
				if p, ok := err.V.(Ptr); ok && !p.IsNil() {
					o := e.objCell(st, p).(StructV)
					err = o.F[2].(IfaceV)
					continue
				}
			}
			break
		}
		return c.False(), true
	})
	e.reg("fmt.Errorf", func(e *Engine, st *State, cc *CallCtx) (Value, bool) {
		format := concStrArg(cc.Args[0])
		args := e.variadicArgs(st, cc.Args[1])
		msg := e.sprintf(st, format, args)
		if strings.Contains(format, "%w") {
			for _, a := range args {
				if iv, ok := a.(IfaceV); ok && iv.T != nil && types.Implements(iv.T, errorIface()) {
					return e.mkWrapError(st, msg, iv), true
				}
			}
		}
		return e.mkError(st, msg), true
	})
	e.reg("fmt.Sprintf", func(e *Engine, st *State, cc *CallCtx) (Value, bool) {
		return StrV{Conc: true, S: e.sprintf(st, concStrArg(cc.Args[0]), e.variadicArgs(st, cc.Args[1]))}, true
	})
	e.reg("fmt.Sprint", func(e *Engine, st *State, cc *CallCtx) (Value, bool) {
		var sb strings.Builder
		for _, a := range e.variadicArgs(st, cc.Args[0]) {
			sb.WriteString(e.fmtValue(st, a))
		}
		return StrV{Conc: true, S: sb.String()}, true
	})
	for _, n := range []string{"fmt.Println", "fmt.Printf", "fmt.Print", "fmt.Fprintf", "fmt.Fprintln", "fmt.Fprint"} {
		e.reg(n, func(e *Engine, st *State, cc *CallCtx) (Value, bool) {
			return TupleV{e.k64(0), IfaceV{}}, true
		})
	}
	// strings on concrete arguments
	str1 := func(name string, f func(a []string) Value) {
		e.reg(name, func(e *Engine, st *State, cc *CallCtx) (Value, bool) {
			var ss []string
			for _, a := range cc.Args {
				s, ok := a.(StrV)
				if !ok {
					panic(unsupported(name + ": non-string argument"))
				}
				s = e.normStr(s)
				if !s.Conc {
					panic(unsupported(name + " on symbolic string"))
				}
				ss = append(ss, s.S)
			}
			return f(ss), true
		})
	}
	sv := func(s string) Value { return StrV{Conc: true, S: s} }
	str1("strings.ToLower", func(a []string) Value { return sv(strings.ToLower(a[0])) })
	str1("strings.ToUpper", func(a []string) Value { return sv(strings.ToUpper(a[0])) })
	str1("strings.TrimSpace", func(a []string) Value { return sv(strings.TrimSpace(a[0])) })
	str1("strings.Contains", func(a []string) Value { return c.Bool(strings.Contains(a[0], a[1])) })
	str1("strings.HasPrefix", func(a []string) Value { return c.Bool(strings.HasPrefix(a[0], a[1])) })
	str1("strings.HasSuffix", func(a []string) Value { return c.Bool(strings.HasSuffix(a[0], a[1])) })
	str1("strings.TrimPrefix", func(a []string) Value { return sv(strings.TrimPrefix(a[0], a[1])) })
	str1("strings.TrimSuffix", func(a []string) Value { return sv(strings.TrimSuffix(a[0], a[1])) })
	str1("strings.Trim", func(a []string) Value { return sv(strings.Trim(a[0], a[1])) })
	str1("strings.TrimLeft", func(a []string) Value { return sv(strings.TrimLeft(a[0], a[1])) })
	str1("strings.TrimRight", func(a []string) Value { return sv(strings.TrimRight(a[0], a[1])) })
	str1("strings.Index", func(a []string) Value { return c.Const(uint64(int64(strings.Index(a[0], a[1]))), 64) })
	str1("strings.LastIndex", func(a []string) Value { return c.Const(uint64(int64(strings.LastIndex(a[0], a[1]))), 64) })
	str1("strings.Count", func(a []string) Value { return c.Const(uint64(int64(strings.Count(a[0], a[1]))), 64) })
	str1("strings.EqualFold", func(a []string) Value { return c.Bool(strings.EqualFold(a[0], a[1])) })
	str1("strings.ReplaceAll", func(a []string) Value { return sv(strings.ReplaceAll(a[0], a[1], a[2])) })
	str1("strconv.Quote", func(a []string) Value { return sv(strconv.Quote(a[0])) })
	e.reg("strings.IndexByte", func(e *Engine, st *State, cc *CallCtx) (Value, bool) {
		s := e.normStr(cc.Args[0].(StrV))
		b := cc.Args[1].(*smt.Term)
		if !s.Conc || !b.IsConst() {
			panic(unsupported("strings.IndexByte on symbolic"))
		}
		return c.Const(uint64(int64(strings.IndexByte(s.S, byte(b.Val)))), 64), true
	})
	e.reg("strings.Split", func(e *Engine, st *State, cc *CallCtx) (Value, bool) {
		ss, ok := allConcStr([]Value{e.normStr(cc.Args[0].(StrV)), e.normStr(cc.Args[1].(StrV))})
		if !ok {
			// symbolic bytes, concrete length, one-byte concrete separator: decide each byte (forks only
			// where a byte may or may not be the separator)
			str, sep := e.normStr(cc.Args[0].(StrV)), e.normStr(cc.Args[1].(StrV))
			if !sep.Conc || len(sep.S) != 1 || str.Conc || !str.Len.IsConst() {
				panic(unsupported("strings.Split on symbolic string"))
			}
			n := int(str.Len.Val)
			sb := c.Const(uint64(sep.S[0]), 8)
			var pieces []Value
			start := 0
			mk := func(a, b int) Value {
				arr := c.ConstArr(8, c.Const(0, 8))
				for k := a; k < b; k++ {
					arr = c.Store(arr, e.k64(uint64(k-a)), c.Select(str.A, e.k64(uint64(k))))
				}
				return e.normStr(StrV{A: arr, Len: e.k64(uint64(b - a))})
			}
			for i := 0; i < n; i++ {
				if e.branch(st, c.Eq(c.Select(str.A, e.k64(uint64(i))), sb)) {
					pieces = append(pieces, mk(start, i))
					start = i + 1
				}
			}
			pieces = append(pieces, mk(start, n))
			id := e.newObj()
			st.dirty = true
			st.heap[id] = ArrV{E: pieces}
			ln := e.k64(uint64(len(pieces)))
			return SliceV{Base: Ptr{Obj: id}, Off: e.k64(0), Len: ln, Cap: ln}, true
		}
		return e.strSliceVal(st, strings.Split(ss[0], ss[1])), true
	})
	e.reg("strings.Fields", func(e *Engine, st *State, cc *CallCtx) (Value, bool) {
		ss, ok := allConcStr([]Value{e.normStr(cc.Args[0].(StrV))})
		if !ok {
			panic(unsupported("strings.Fields on symbolic string"))
		}
		return e.strSliceVal(st, strings.Fields(ss[0])), true
	})
	e.reg("strings.Join", func(e *Engine, st *State, cc *CallCtx) (Value, bool) {
		sep := e.normStr(cc.Args[1].(StrV))
		if ss, ok := e.concStrSlice(st, cc.Args[0]); ok && sep.Conc {
			return sv(strings.Join(ss, sep.S)), true
		}
		// symbolic elements: build by concatenation
		els := e.variadicArgs(st, cc.Args[0])
		var acc Value = StrV{Conc: true}
		for i, x := range els {
			if i > 0 {
				acc = e.strConcat(st, acc.(StrV), sep)
			}
			acc = e.strConcat(st, acc.(StrV), x.(StrV))
		}
		return acc, true
	})
	e.reg("strconv.Itoa", func(e *Engine, st *State, cc *CallCtx) (Value, bool) {
		x := cc.Args[0].(*smt.Term)
		if !x.IsConst() {
			panic(unsupported("strconv.Itoa on symbolic"))
		}
		return sv(strconv.FormatInt(x.SVal(), 10)), true
	})
	e.reg("strconv.FormatInt", func(e *Engine, st *State, cc *CallCtx) (Value, bool) {
		x, b := cc.Args[0].(*smt.Term), cc.Args[1].(*smt.Term)
		if !x.IsConst() || !b.IsConst() {
			panic(unsupported("strconv.FormatInt on symbolic"))
		}
		return sv(strconv.FormatInt(x.SVal(), int(b.Val))), true
	})
	e.reg("strconv.FormatUint", func(e *Engine, st *State, cc *CallCtx) (Value, bool) {
		x, b := cc.Args[0].(*smt.Term), cc.Args[1].(*smt.Term)
		if !x.IsConst() || !b.IsConst() {
			panic(unsupported("strconv.FormatUint on symbolic"))
		}
		return sv(strconv.FormatUint(x.Val, int(b.Val))), true
	})
	parseInt := func(name string, unsigned bool) {
		e.reg(name, func(e *Engine, st *State, cc *CallCtx) (Value, bool) {
			s := e.normStr(cc.Args[0].(StrV))
			if !s.Conc {
				panic(unsupported(name + " on symbolic string"))
			}
			base, bits := 10, 0
			if len(cc.Args) == 3 {
				base, bits = int(cc.Args[1].(*smt.Term).Val), int(cc.Args[2].(*smt.Term).Val)
			}
			var v uint64
			var err error
			if unsigned {
				v, err = strconv.ParseUint(s.S, base, bits)
			} else {
				var iv int64
				iv, err = strconv.ParseInt(s.S, base, bits)
				v = uint64(iv)
			}
			var ev Value = IfaceV{}
			if err != nil {
				ev = e.mkError(st, err.Error())
			}
			return TupleV{c.Const(v, 64), ev}, true
		})
	}
	parseInt("strconv.ParseInt", false)
	parseInt("strconv.ParseUint", true)
	parseInt("strconv.Atoi", false)
	// sync/atomic on plain cells
	for _, w := range []struct {
		n string
		t types.Type
	}{{"Int32", types.Typ[types.Int32]}, {"Int64", types.Typ[types.Int64]}, {"Uint32", types.Typ[types.Uint32]}, {"Uint64", types.Typ[types.Uint64]}} {
		w := w
		e.reg("sync/atomic.Load"+w.n, func(e *Engine, st *State, cc *CallCtx) (Value, bool) {
			return e.load(st, cc.Args[0].(Ptr), w.t), true
		})
		e.reg("sync/atomic.Store"+w.n, func(e *Engine, st *State, cc *CallCtx) (Value, bool) {
			e.store(st, cc.Args[0].(Ptr), cc.Args[1], w.t)
			return nil, true
		})
		e.reg("sync/atomic.Add"+w.n, func(e *Engine, st *State, cc *CallCtx) (Value, bool) {
			p := cc.Args[0].(Ptr)
			nv := c.Add(e.load(st, p, w.t).(*smt.Term), cc.Args[1].(*smt.Term))
			e.store(st, p, nv, w.t)
			return nv, true
		})
		e.reg("sync/atomic.Swap"+w.n, func(e *Engine, st *State, cc *CallCtx) (Value, bool) {
			p := cc.Args[0].(Ptr)
			old := e.load(st, p, w.t)
			e.store(st, p, cc.Args[1], w.t)
			return old, true
		})
		e.reg("sync/atomic.CompareAndSwap"+w.n, func(e *Engine, st *State, cc *CallCtx) (Value, bool) {
			p := cc.Args[0].(Ptr)
			old := e.load(st, p, w.t).(*smt.Term)
			if e.branch(st, c.Eq(old, cc.Args[1].(*smt.Term))) {
				e.store(st, p, cc.Args[2], w.t)
				return c.True(), true
			}
			return c.False(), true
		})
	}
	// unique.Make[T]: interning by value; the handle is a pointer to one canonical heap object per value
	e.reg("unique.Make", func(e *Engine, st *State, cc *CallCtx) (Value, bool) {
		key := cc.Fn.String() + "|" + e.deepShow(st, cc.Args[0])
		if strings.Contains(key, "<sym>") {
			panic(unsupported("unique.Make on a symbolic value"))
		}
		if e.uniq == nil {
			e.uniq = map[string]int{}
		}
		id, ok := e.uniq[key]
		if !ok {
			id = e.newObj()
			e.uniq[key] = id
		}
		if _, ok := st.heap[id]; !ok {
			st.dirty = true
			st.heap[id] = cc.Args[0]
		}
		return StructV{F: []Value{Ptr{Obj: id}}}, true
	})
	e.reg("unique.Make[string]", func(e *Engine, st *State, cc *CallCtx) (Value, bool) {
		return StructV{F: []Value{NativeV{Tag: "uniq", V: e.normStr(cc.Args[0].(StrV))}}}, true
	})
}

func errorIface() *types.Interface {
	return types.Universe.Lookup("error").Type().Underlying().(*types.Interface)
}
