package sym

import (
	"fmt"
	"go/types"

	"verif/engine/smt"
)

func (e *Engine) k64(v uint64) *smt.Term { return e.C.Const(v, 64) }

func (e *Engine) objCell(st *State, p Ptr) Value {
	o, ok := st.heap[p.Obj]
	if !ok {
		panic(fmt.Sprintf("engine bug: dangling object %d", p.Obj))
	}
	return getAt(o, splitPath(p.Path))
}

func (e *Engine) setCell(st *State, p Ptr, v Value) {
	st.dirty = true
	st.heap[p.Obj] = setAt(st.heap[p.Obj], splitPath(p.Path), v)
}

func (e *Engine) elemFromBV(b BArrV, t *smt.Term) Value {
	if b.Bool {
		return e.C.Eq(t, e.C.Const(1, 1))
	}
	return t
}

func (e *Engine) elemToBV(b BArrV, v Value) *smt.Term {
	t := v.(*smt.Term)
	if b.Bool {
		return e.C.Ite(t, e.C.Const(1, 1), e.C.Const(0, 1))
	}
	return t
}

// load reads a value of type t through p.
func (e *Engine) load(st *State, p Ptr, t types.Type) Value {
	if p.IsNil() {
		e.runtimePanic(st, "nil pointer dereference")
		panic(retryInstr{})
	}
	cell := e.objCell(st, p)
	if p.Idx == nil {
		if sv, ok := cell.(SliceV); ok && isStringT(t) {
			// *(*string)(unsafe.Pointer(&byteSlice))
			return e.sliceToStr(st, sv)
		}
		if b, ok := cell.(BArrV); ok {
			if _, isArr := t.Underlying().(*types.Array); !isArr {
				return e.loadScalarAt(st, b, e.k64(0), t)
			}
		}
		return cell
	}
	b, ok := cell.(BArrV)
	if !ok {
		panic(unsupported(fmt.Sprintf("indexed pointer into %T", cell)))
	}
	if _, ok := t.Underlying().(*types.Array); ok {
		n, ew, isB, sg, ok := flatArray(t)
		if !ok || ew != b.EW {
			panic(unsupported("array view with different element type"))
		}
		arr := e.C.ConstArr(ew, e.C.Const(0, ew))
		for i := 0; i < n; i++ {
			arr = e.C.Store(arr, e.k64(uint64(i)), e.C.Select(b.A, e.C.Add(p.Idx, e.k64(uint64(i)))))
		}
		return BArrV{A: arr, Len: e.k64(uint64(n)), EW: ew, Bool: isB, Signed: sg}
	}
	return e.loadScalarAt(st, b, p.Idx, t)
}

func (e *Engine) loadScalarAt(st *State, b BArrV, idx *smt.Term, t types.Type) Value {
	w, isB, _, ok := isScalarElem(t)
	if !ok {
		panic(unsupported("load of " + t.String() + " from scalar array"))
	}
	if isB {
		w = b.EW
	}
	if w == b.EW {
		return e.elemFromBV(b, e.C.Select(b.A, idx))
	}
	if w < b.EW || w%b.EW != 0 {
		panic(unsupported("narrow unsafe load"))
	}
	k := w / b.EW
	// unsafe multi-element access: must stay inside the backing array
	if !e.check(st, e.C.Ule(e.C.Add(idx, e.k64(uint64(k))), b.Len)) {
		e.runtimePanic(st, "unsafe load past the end of the backing array")
		panic(retryInstr{})
	}
	var r *smt.Term
	for i := 0; i < k; i++ { // little endian
		cellv := e.C.Select(b.A, e.C.Add(idx, e.k64(uint64(i))))
		if r == nil {
			r = cellv
		} else {
			r = e.C.Concat(cellv, r)
		}
	}
	return r
}

func (e *Engine) store(st *State, p Ptr, v Value, t types.Type) {
	if p.IsNil() {
		e.runtimePanic(st, "nil pointer dereference")
		return
	}
	if p.Idx == nil {
		cell := e.objCell(st, p)
		if b, ok := cell.(BArrV); ok {
			if _, isArr := v.(BArrV); !isArr {
				e.storeScalarAt(st, p, b, e.k64(0), v, t)
				return
			}
		}
		e.setCell(st, p, v)
		return
	}
	cell := e.objCell(st, p)
	b, ok := cell.(BArrV)
	if !ok {
		panic(unsupported(fmt.Sprintf("indexed store into %T", cell)))
	}
	if src, ok := v.(BArrV); ok {
		n := src.Len
		if !n.IsConst() {
			panic(unsupported("array store of symbolic length"))
		}
		arr := b.A
		for i := uint64(0); i < n.Val; i++ {
			arr = e.C.Store(arr, e.C.Add(p.Idx, e.k64(i)), e.C.Select(src.A, e.k64(i)))
		}
		b.A = arr
		e.setCell(st, Ptr{Obj: p.Obj, Path: p.Path}, b)
		return
	}
	e.storeScalarAt(st, p, b, p.Idx, v, t)
}

func (e *Engine) storeScalarAt(st *State, p Ptr, b BArrV, idx *smt.Term, v Value, t types.Type) {
	tv := e.elemToBV(b, v)
	w := tv.S.W
	if w == b.EW {
		b.A = e.C.Store(b.A, idx, tv)
	} else {
		if w < b.EW || w%b.EW != 0 {
			panic(unsupported("narrow unsafe store"))
		}
		k := w / b.EW
		if !e.check(st, e.C.Ule(e.C.Add(idx, e.k64(uint64(k))), b.Len)) {
			e.runtimePanic(st, "unsafe store past the end of the backing array")
			return
		}
		for i := 0; i < k; i++ {
			b.A = e.C.Store(b.A, e.C.Add(idx, e.k64(uint64(i))), e.C.Extract(tv, (i+1)*b.EW-1, i*b.EW))
		}
	}
	e.setCell(st, Ptr{Obj: p.Obj, Path: p.Path}, b)
}

func (e *Engine) toIdx64(i *smt.Term, t types.Type) *smt.Term {
	if i.S.W == 64 {
		return i
	}
	_, signed, _ := intInfo(t)
	if signed {
		return e.C.SExt(i, 64)
	}
	return e.C.ZExt(i, 64)
}

// concretise forks over feasible concrete values of t in [0,n).
func (e *Engine) concretise(st *State, t *smt.Term, n int) int {
	if t.IsConst() {
		return int(t.Val)
	}
	for i := 0; i < n; i++ {
		if e.branch(st, e.C.Eq(t, e.C.Const(uint64(i), t.S.W))) {
			return i
		}
	}
	panic(pathDead{})
}

func (e *Engine) indexAddr(st *State, x Value, i *smt.Term, xt, it types.Type) (Value, bool) {
	c := e.C
	i = e.toIdx64(i, it)
	switch xv := x.(type) {
	case SliceV:
		if !e.check(st, c.Ult(i, xv.Len)) {
			e.runtimePanic(st, "index out of range")
			return nil, false
		}
		cell := e.objCell(st, xv.Base)
		if _, ok := cell.(BArrV); ok {
			idx := c.Add(xv.Off, i)
			if xv.Base.Idx != nil {
				idx = c.Add(xv.Base.Idx, idx)
			}
			return Ptr{Obj: xv.Base.Obj, Path: xv.Base.Path, Idx: idx}, true
		}
		arr := cell.(ArrV)
		pos := e.concretise(st, c.Add(xv.Off, i), len(arr.E))
		return Ptr{Obj: xv.Base.Obj, Path: pathAppend(xv.Base.Path, pos)}, true
	case Ptr:
		if xv.IsNil() {
			e.runtimePanic(st, "nil pointer dereference")
			return nil, false
		}
		at := xt.Underlying().(*types.Pointer).Elem().Underlying().(*types.Array)
		if !e.check(st, c.Ult(i, e.k64(uint64(at.Len())))) {
			e.runtimePanic(st, "index out of range")
			return nil, false
		}
		cell := e.objCell(st, Ptr{Obj: xv.Obj, Path: xv.Path})
		if _, ok := cell.(BArrV); ok {
			idx := i
			if sd := flatStride(at); sd != 1 {
				idx = c.Mul(i, e.k64(uint64(sd)))
			}
			if xv.Idx != nil {
				idx = c.Add(xv.Idx, idx)
			}
			return Ptr{Obj: xv.Obj, Path: xv.Path, Idx: idx}, true
		}
		pos := e.concretise(st, i, int(at.Len()))
		return Ptr{Obj: xv.Obj, Path: pathAppend(xv.Path, pos)}, true
	}
	panic(unsupported(fmt.Sprintf("IndexAddr on %T", x)))
}

func (e *Engine) indexVal(st *State, x Value, i *smt.Term, xt, it types.Type) (Value, bool) {
	c := e.C
	i = e.toIdx64(i, it)
	switch xv := x.(type) {
	case StrV:
		return e.strIndex(st, xv, i)
	case BArrV:
		if at, ok := xt.Underlying().(*types.Array); ok {
			if sd := flatStride(at); sd != 1 {
				// nested array stored flat: extract the sub-array
				if !e.check(st, c.Ult(i, e.k64(uint64(at.Len())))) {
					e.runtimePanic(st, "index out of range")
					return nil, false
				}
				base := c.Mul(i, e.k64(uint64(sd)))
				arr := c.ConstArr(xv.EW, c.Const(0, xv.EW))
				for k := 0; k < sd; k++ {
					arr = c.Store(arr, e.k64(uint64(k)), c.Select(xv.A, c.Add(base, e.k64(uint64(k)))))
				}
				return BArrV{A: arr, Len: e.k64(uint64(sd)), EW: xv.EW, Bool: xv.Bool, Signed: xv.Signed}, true
			}
		}
		if !e.check(st, c.Ult(i, xv.Len)) {
			e.runtimePanic(st, "index out of range")
			return nil, false
		}
		return e.elemFromBV(xv, c.Select(xv.A, i)), true
	case ArrV:
		if !e.check(st, c.Ult(i, e.k64(uint64(len(xv.E))))) {
			e.runtimePanic(st, "index out of range")
			return nil, false
		}
		return xv.E[e.concretise(st, i, len(xv.E))], true
	}
	panic(unsupported(fmt.Sprintf("Index on %T", x)))
}

const maxAlloc = uint64(1) << 47

func (e *Engine) makeSlice(st *State, t types.Type, ln, cp *smt.Term) (Value, bool) {
	c := e.C
	st0 := t.Underlying().(*types.Slice)
	ln = e.sext64(ln)
	cp = e.sext64(cp)
	ok := c.And(c.Sge(ln, e.k64(0)), c.Sle(ln, cp), c.Ule(cp, e.k64(maxAlloc)))
	if !e.check(st, ok) {
		e.runtimePanic(st, "makeslice: len or cap out of range")
		return nil, false
	}
	id := e.newObj()
	if ew, isB, sg, ok := isScalarElem(st0.Elem()); ok {
		st.dirty = true
		st.heap[id] = BArrV{A: c.ConstArr(ew, c.Const(0, ew)), Len: cp, EW: ew, Bool: isB, Signed: sg}
		return SliceV{Base: Ptr{Obj: id}, Off: e.k64(0), Len: ln, Cap: cp}, true
	}
	n := cp
	if !n.IsConst() {
		ub := e.upperBound(st, cp)
		if ub > 64 {
			panic(unsupported("make of composite slice with unbounded symbolic capacity"))
		}
		k := e.concretise(st, cp, int(ub)+1)
		n = e.k64(uint64(k))
	}
	el := make([]Value, n.Val)
	for i := range el {
		el[i] = e.Zero(st0.Elem())
	}
	st.dirty = true
	st.heap[id] = ArrV{E: el}
	return SliceV{Base: Ptr{Obj: id}, Off: e.k64(0), Len: ln, Cap: n}, true
}

func (e *Engine) sext64(t *smt.Term) *smt.Term {
	if t.S.W == 64 {
		return t
	}
	return e.C.SExt(t, 64)
}

// upperBound finds a (not necessarily tight) unsigned upper bound of t under the path condition.
func (e *Engine) upperBound(st *State, t *smt.Term) uint64 {
	if t.IsConst() {
		return t.Val
	}
	for _, k := range []uint64{4, 16, 64, 256, 1024, 4096, 16384, 65536, 1 << 20, 1 << 32} {
		if e.feasible(st, e.C.Ugt(t, e.C.Const(k, t.S.W))) == smt.Unsat {
			// tighten a little by binary search between k/4 and k
			lo, hi := k/4, k
			for lo < hi {
				mid := (lo + hi) / 2
				if e.feasible(st, e.C.Ugt(t, e.C.Const(mid, t.S.W))) == smt.Unsat {
					hi = mid
				} else {
					lo = mid + 1
				}
			}
			return hi
		}
	}
	return ^uint64(0)
}
