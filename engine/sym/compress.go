package sym

import (
	"fmt"
	"go/types"

	"verif/engine/smt"
)

// Contract stubs for the compression libraries (C liblz4/libzstd through cgo, pierrec/lz4 and
// klauspost/zstd in the native build). None of them can be encoded; the wrappers under test are
// checked against the documented contract:
//
//	compress(src)  emits a frame F(src) of some length 1 <= n <= Bound(len src) (an arbitrary byte string;
//	               different sources never share a frame) exactly where the library documents it
//	               (the C calls at the destination pointer, EncodeAll APPENDED to dst);
//	               if the destination is too small it fails.
//	decompress(x)  of exactly F(src) yields src (or fails if the output buffer is too small); of anything
//	               else it fails or yields arbitrary bytes of arbitrary length within the output capacity.
type frameEnt struct {
	kind string
	fr   *smt.Term // frame bytes (array)
	flen *smt.Term
	src  *smt.Term // source bytes (array, from index 0)
	slen *smt.Term
	ub   uint64 // upper bound of flen
	sub  uint64 // upper bound of slen
}

const frameRegID = -6

func (e *Engine) frames(st *State) []frameEnt {
	if o, ok := st.heap[frameRegID]; ok {
		return o.(NativeV).V.([]frameEnt)
	}
	return nil
}

func lz4Bound(c *smt.Ctx, n *smt.Term) *smt.Term {
	return c.Add(c.Add(n, c.UDiv(n, c.Const(255, 64))), c.Const(16, 64))
}

func zstdBound(c *smt.Ctx, n *smt.Term) *smt.Term {
	// n + (n>>8) + ((128KiB - n) >> 11) for n < 128 KiB
	return c.Add(c.Add(n, c.LShr(n, c.Const(8, 64))), c.LShr(c.Sub(c.Const(128<<10, 64), n), c.Const(11, 64)))
}

func (e *Engine) boundOf(kind string, n *smt.Term) *smt.Term {
	if kind == "lz4" {
		return lz4Bound(e.C, n)
	}
	return zstdBound(e.C, n)
}

// snapshot copies n cells of arr[off..] into a fresh array starting at 0.
func (e *Engine) snapshot(st *State, arr, off, n *smt.Term) *smt.Term {
	return e.copyCells(st, e.C.ConstArr(8, e.C.Const(0, 8)), e.k64(0), arr, off, n)
}

func (e *Engine) arrEqUpTo(a, b *smt.Term, n *smt.Term, ub uint64) *smt.Term {
	c := e.C
	var cs []*smt.Term
	for i := uint64(0); i < ub; i++ {
		ki := e.k64(i)
		cs = append(cs, c.Or(c.Uge(ki, n), c.Eq(c.Select(a, ki), c.Select(b, ki))))
	}
	return c.And(cs...)
}

// newFrame registers F(src) and returns its bytes and length. No state mutation before the caller's forks:
// the registration happens at the end of the calling native.
func (e *Engine) newFrame(st *State, kind string, srcArr, srcOff, srcLen *smt.Term) frameEnt {
	c := e.C
	sub := e.upperBound(st, srcLen)
	if sub > 1<<14 {
		panic(unsupported("compress stub: unbounded source length"))
	}
	src := e.snapshot(st, srcArr, srcOff, srcLen)
	// an already registered equal source yields the same frame (deterministic compressor)
	for _, f := range e.frames(st) {
		if f.kind != kind {
			continue
		}
		same := c.And(c.Eq(f.slen, srcLen), e.arrEqUpTo(f.src, src, srcLen, sub))
		if e.branch(st, same) {
			return f
		}
	}
	bound := e.boundOf(kind, srcLen)
	ub := e.upperBound(st, bound)
	// fresh frame variables are memoised per instruction execution so that a re-execution after a fork
	// sees the same terms
	type frameVars struct{ fr, flen *smt.Term }
	mkey := fmt.Sprintf("frame#%d", len(e.frames(st)))
	var fv frameVars
	if m, ok := st.memo[mkey]; ok {
		fv = m.(frameVars)
	} else {
		fv = frameVars{fr: c.Var("frame", smt.Arr(8)), flen: c.Var("framelen", smt.BV(64))}
		if st.memo == nil {
			st.memo = map[string]interface{}{}
		}
		st.memo[mkey] = fv
	}
	fr, flen := fv.fr, fv.flen
	e.assume(st, c.And(c.Uge(flen, e.k64(1)), c.Ule(flen, bound)))
	if e.Params["FRAMELEN_CONCRETE"] == 2 && srcLen.IsConst() {
		// representative frame lengths around the raw length n and the (scaled) write buffer of 8 bytes:
		// 1, n-1, n, n+1, 8, 9 and the bound
		n := srcLen.Val
		cands := []uint64{1, n, n + 1, 8, 9, ub}
		if n > 1 {
			cands = append(cands, n-1)
		}
		var alts []*smt.Term
		seen := map[uint64]bool{}
		var vals []uint64
		for _, k := range cands {
			if k >= 1 && k <= ub && !seen[k] {
				seen[k] = true
				vals = append(vals, k)
				alts = append(alts, c.Eq(flen, e.k64(k)))
			}
		}
		e.assume(st, c.Or(alts...))
		for i, k := range vals {
			if i == len(vals)-1 || e.branch(st, alts[i]) {
				flen = e.k64(k)
				ub = k
				break
			}
		}
	} else if e.Params["FRAMELEN_CONCRETE"] == 1 {
		// one path per possible frame length (keeps file offsets concrete); still every length 1..Bound
		k := e.concretise(st, flen, int(ub)+1)
		flen = e.k64(uint64(k))
		ub = uint64(k)
	}
	ent := TraceEnt{Kind: "bytes", Name: fr.Name, N: int(ub)}
	for i := uint64(0); i < ub; i++ {
		ent.Terms = append(ent.Terms, c.Select(fr, e.k64(i)))
	}
	st.trace = append(st.trace, ent, TraceEnt{Kind: "int", Name: fv.flen.Name, Terms: []*smt.Term{fv.flen}})
	nf := frameEnt{kind: kind, fr: fr, flen: flen, src: src, slen: srcLen, ub: ub, sub: sub}
	// injectivity: a frame shared with an earlier entry means the sources were equal (handled above)
	for _, f := range e.frames(st) {
		if f.kind != kind {
			continue
		}
		n := f.ub
		if ub < n {
			n = ub
		}
		e.assume(st, c.Not(c.And(c.Eq(f.flen, flen), e.arrEqUpTo(f.fr, fr, flen, n))))
	}
	reg := append(append([]frameEnt(nil), e.frames(st)...), nf)
	st.heap[frameRegID] = NativeV{Tag: "frames", V: reg}
	// Registration is idempotent under re-execution of the calling instruction (a re-run finds the entry by
	// its source and creates nothing new), so a fork after it is safe: the dirty flag is left untouched.
	return nf
}

// matchFrame decides whether in[0:inLen] is a registered frame of the kind (forks per candidate).
func (e *Engine) matchFrame(st *State, kind string, inArr, inOff, inLen *smt.Term) (frameEnt, bool) {
	c := e.C
	for _, f := range e.frames(st) {
		if f.kind != kind {
			continue
		}
		var cs []*smt.Term
		cs = append(cs, c.Eq(inLen, f.flen))
		for i := uint64(0); i < f.ub; i++ {
			ki := e.k64(i)
			cs = append(cs, c.Or(c.Uge(ki, f.flen), c.Eq(c.Select(inArr, c.Add(inOff, ki)), c.Select(f.fr, ki))))
		}
		if e.branch(st, c.And(cs...)) {
			return f, true
		}
	}
	return frameEnt{}, false
}

func (e *Engine) ptrArr(st *State, p Ptr) (BArrV, *smt.Term) {
	b, ok := e.objCell(st, Ptr{Obj: p.Obj, Path: p.Path}).(BArrV)
	if !ok {
		panic(unsupported("compression stub: pointer into a non-byte object"))
	}
	idx := p.Idx
	if idx == nil {
		idx = e.k64(0)
	}
	return b, idx
}

func (e *Engine) writeAt(st *State, p Ptr, src *smt.Term, n *smt.Term) {
	b, idx := e.ptrArr(st, p)
	b.A = e.copyCells(st, b.A, idx, src, e.k64(0), n)
	e.setCell(st, Ptr{Obj: p.Obj, Path: p.Path}, b)
}

// havoc makes the whole byte object behind p arbitrary (over-approximation of "the library wrote
// something into the output buffer").
func (e *Engine) havoc(st *State, p Ptr) {
	b, _ := e.ptrArr(st, p)
	b.A = e.C.Var("garbage", smt.Arr(8))
	e.setCell(st, Ptr{Obj: p.Obj, Path: p.Path}, b)
}

func sx(e *Engine, t *smt.Term) *smt.Term { return e.sext64(t) }

func registerCompression(e *Engine) {
	c := e.C
	retInt := func(t *smt.Term, w int) Value {
		if t.S.W == w {
			return t
		}
		return c.Extract(t, w-1, 0)
	}
	// ---- C libraries through cgo ------------------------------------------------------------------
	cCompress := func(kind string, srcI, srcLenI, dstI, dstCapI, retW int) NativeFn {
		return func(e *Engine, st *State, cc *CallCtx) (Value, bool) {
			srcLen := sx(e, cc.Args[srcLenI].(*smt.Term))
			dstCap := sx(e, cc.Args[dstCapI].(*smt.Term))
			if retW == 32 && !e.branch(st, c.And(c.Sge(srcLen, e.k64(0)), c.Sge(dstCap, e.k64(0)))) {
				return retInt(e.k64(0), retW), true // negative C int sizes: the library refuses
			}
			srcArr, srcOff := c.ConstArr(8, c.Const(0, 8)), e.k64(0)
			if sp, ok := cc.Args[srcI].(Ptr); ok && !sp.IsNil() {
				b, idx := e.ptrArr(st, sp)
				srcArr, srcOff = b.A, idx
				if !e.check(st, c.Ule(c.Add(idx, srcLen), b.Len)) {
					e.runtimePanic(st, "C library reads past the end of the source buffer")
					return nil, false
				}
			} else if e.feasible(st, c.Ne(srcLen, e.k64(0))) != smt.Unsat {
				e.runtimePanic(st, "C library called with NULL source and non-zero length")
				return nil, false
			}
			dp, ok := cc.Args[dstI].(Ptr)
			if !ok || dp.IsNil() {
				e.runtimePanic(st, "C library called with NULL destination")
				return nil, false
			}
			db, didx := e.ptrArr(st, dp)
			if !e.check(st, c.Ule(c.Add(didx, dstCap), db.Len)) {
				e.runtimePanic(st, "C library told a destination capacity larger than the buffer")
				return nil, false
			}
			f := e.newFrame(st, kind, srcArr, srcOff, srcLen)
			if !e.branch(st, c.Ule(f.flen, dstCap)) {
				// destination too small: liblz4 returns 0, libzstd an error code (negative as int)
				if kind == "lz4" {
					return retInt(e.k64(0), retW), true
				}
				return retInt(c.Const(^uint64(69), 64), retW), true // -70: dstSize_tooSmall
			}
			e.writeAt(st, dp, f.fr, f.flen)
			return retInt(f.flen, retW), true
		}
	}
	cDecompress := func(kind string, inI, inLenI, outI, outCapI, retW int) NativeFn {
		return func(e *Engine, st *State, cc *CallCtx) (Value, bool) {
			inLen := sx(e, cc.Args[inLenI].(*smt.Term))
			outCap := sx(e, cc.Args[outCapI].(*smt.Term))
			if retW == 32 && !e.branch(st, c.And(c.Sge(inLen, e.k64(0)), c.Sge(outCap, e.k64(0)))) {
				return retInt(c.Const(^uint64(0), 64), retW), true // negative C int sizes: the library refuses
			}
			ip, ok := cc.Args[inI].(Ptr)
			if !ok || ip.IsNil() {
				e.runtimePanic(st, "C library called with NULL input")
				return nil, false
			}
			ib, iidx := e.ptrArr(st, ip)
			if !e.check(st, c.Ule(c.Add(iidx, inLen), ib.Len)) {
				e.runtimePanic(st, "C library reads past the end of the input buffer")
				return nil, false
			}
			op, hasOut := cc.Args[outI].(Ptr)
			hasOut = hasOut && !op.IsNil()
			if hasOut {
				ob, oidx := e.ptrArr(st, op)
				if !e.check(st, c.Ule(c.Add(oidx, outCap), ob.Len)) {
					e.runtimePanic(st, "C library told an output capacity larger than the buffer")
					return nil, false
				}
			} else if e.feasible(st, c.Ne(outCap, e.k64(0))) != smt.Unsat {
				e.runtimePanic(st, "C library called with NULL output and non-zero capacity")
				return nil, false
			}
			neg := retInt(c.Const(^uint64(0), 64), retW)
			if f, ok := e.matchFrame(st, kind, ib.A, iidx, inLen); ok {
				if !e.branch(st, c.Ule(f.slen, outCap)) {
					return neg, true
				}
				if hasOut {
					e.writeAt(st, op, f.src, f.slen)
				}
				return retInt(f.slen, retW), true
			}
			// not a frame this run produced: the library fails or returns arbitrary bytes
			fail := e.fresh(st, "bool", "garbagefails", 0)
			if e.branch(st, fail) {
				return neg, true
			}
			m := e.fresh(st, "int", "garbagelen", 64)
			e.assume(st, c.Ule(m, outCap))
			if hasOut {
				e.havoc(st, op)
			}
			return retInt(m, retW), true
		}
	}
	lz := "github.com/els0r/goProbe/v4/pkg/goDB/encoder/lz4."
	zs := "github.com/els0r/goProbe/v4/pkg/goDB/encoder/zstd."
	e.reg(lz+"_Cfunc_LZ4_compressBound", func(e *Engine, st *State, cc *CallCtx) (Value, bool) {
		return retInt(lz4Bound(c, sx(e, cc.Args[0].(*smt.Term))), 32), true
	})
	e.reg(lz+"_Cfunc_LZ4_compress_HC", cCompress("lz4", 0, 2, 1, 3, 32))
	e.reg(lz+"_Cfunc_LZ4_decompress_safe", cDecompress("lz4", 0, 2, 1, 3, 32))
	e.reg(zs+"_Cfunc_ZSTD_compressBound", func(e *Engine, st *State, cc *CallCtx) (Value, bool) {
		return zstdBound(c, cc.Args[0].(*smt.Term)), true
	})
	ctx := func(e *Engine, st *State, cc *CallCtx) (Value, bool) {
		id := e.newObj()
		st.dirty = true
		st.heap[id] = StructV{}
		return Ptr{Obj: id}, true
	}
	e.reg(zs+"_Cfunc_ZSTD_createCCtx", ctx)
	e.reg(zs+"_Cfunc_ZSTD_createDCtx", ctx)
	zero64 := func(e *Engine, st *State, cc *CallCtx) (Value, bool) { return e.k64(0), true }
	e.reg(zs+"_Cfunc_zstdInitCCtx", zero64)
	e.reg(zs+"_Cfunc_ZSTD_freeCCtx", zero64)
	e.reg(zs+"_Cfunc_ZSTD_freeDCtx", zero64)
	needCtx := func(inner NativeFn) NativeFn {
		return func(e *Engine, st *State, cc *CallCtx) (Value, bool) {
			if nv, ok := cc.Args[0].(NativeV); !ok || nv.Tag != "uintptr" || nv.V.(Ptr).IsNil() {
				if p, ok := cc.Args[0].(Ptr); !ok || p.IsNil() {
					e.runtimePanic(st, "libzstd called with a NULL context (SIGSEGV)")
					return nil, false
				}
			}
			return inner(e, st, cc)
		}
	}
	e.reg(zs+"_Cfunc_zstdCompress", needCtx(cCompress("zstd", 1, 2, 3, 4, 64)))
	e.reg(zs+"_Cfunc_zstdDecompress", needCtx(cDecompress("zstd", 1, 2, 3, 4, 64)))
	e.reg(zs+"_Cfunc_ZSTD_getErrorName", func(e *Engine, st *State, cc *CallCtx) (Value, bool) { return Ptr{}, true })
	e.reg(zs+"_Cfunc_GoString", func(e *Engine, st *State, cc *CallCtx) (Value, bool) {
		return StrV{Conc: true, S: "zstd error"}, true
	})
	for _, p := range []string{lz, zs} {
		e.reg(p+"_cgoCheckPointer", func(e *Engine, st *State, cc *CallCtx) (Value, bool) { return nil, true })
		e.reg(p+"_cgo_runtime_cgocall", func(e *Engine, st *State, cc *CallCtx) (Value, bool) {
			panic(unsupported("unstubbed C function"))
		})
	}

	// ---- pure-Go libraries -------------------------------------------------------------------------
	pl := "github.com/pierrec/lz4/v4."
	e.reg(pl+"CompressBlockBound", func(e *Engine, st *State, cc *CallCtx) (Value, bool) {
		return lz4Bound(c, cc.Args[0].(*smt.Term)), true
	})
	errT := types.Universe.Lookup("error").Type()
	_ = errT
	e.reg(pl+"CompressBlockHC", func(e *Engine, st *State, cc *CallCtx) (Value, bool) {
		src, dst := cc.Args[0].(SliceV), cc.Args[1].(SliceV)
		sa, so, sl := e.bytesOf(st, src)
		f := e.newFrame(st, "lz4", sa, so, sl)
		if dst.Nil || dst.Base.Obj == 0 || !e.branch(st, c.Ule(f.flen, dst.Len)) {
			return TupleV{e.k64(0), e.mkError(st, "lz4: invalid source or destination buffer too short")}, true
		}
		_, doff, _ := e.bytesOfAny(st, dst)
		e.writeAt(st, Ptr{Obj: dst.Base.Obj, Path: dst.Base.Path, Idx: doff}, f.fr, f.flen)
		return TupleV{f.flen, IfaceV{}}, true
	})
	e.reg(pl+"UncompressBlock", func(e *Engine, st *State, cc *CallCtx) (Value, bool) {
		in, out := cc.Args[0].(SliceV), cc.Args[1].(SliceV)
		ia, io, il := e.bytesOf(st, in)
		outOK := !(out.Nil || out.Base.Obj == 0)
		if f, ok := e.matchFrame(st, "lz4", ia, io, il); ok {
			if !e.branch(st, c.Ule(f.slen, out.Len)) {
				return TupleV{e.k64(0), e.mkError(st, "lz4: invalid source or destination buffer too short")}, true
			}
			if outOK {
				_, ooff, _ := e.bytesOfAny(st, out)
				e.writeAt(st, Ptr{Obj: out.Base.Obj, Path: out.Base.Path, Idx: ooff}, f.src, f.slen)
			}
			return TupleV{f.slen, IfaceV{}}, true
		}
		fail := e.fresh(st, "bool", "garbagefails", 0)
		if e.branch(st, fail) {
			return TupleV{e.k64(0), e.mkError(st, "lz4: invalid source")}, true
		}
		m := e.fresh(st, "int", "garbagelen", 64)
		e.assume(st, c.Ule(m, out.Len))
		if outOK {
			e.havoc(st, Ptr{Obj: out.Base.Obj, Path: out.Base.Path})
		}
		return TupleV{m, IfaceV{}}, true
	})
	// the same contract under zz_verif names: source-level redirection used when a counterexample must be
	// replayable natively against the contract instead of the real library (C01)
	e.natives[VPkg+".LZ4CompressBlockBound"] = e.natives[pl+"CompressBlockBound"]
	e.natives[VPkg+".LZ4CompressBlockHC"] = e.natives[pl+"CompressBlockHC"]
	e.natives[VPkg+".LZ4UncompressBlock"] = e.natives[pl+"UncompressBlock"]
	kz := "github.com/klauspost/compress/zstd."
	mkObj := func(tag string) NativeFn {
		return func(e *Engine, st *State, cc *CallCtx) (Value, bool) {
			id := e.newObj()
			st.dirty = true
			st.heap[id] = StructV{}
			return TupleV{Ptr{Obj: id}, IfaceV{}}, true
		}
	}
	e.reg(kz+"NewWriter", mkObj("zenc"))
	e.reg(kz+"NewReader", mkObj("zdec"))
	opt := func(e *Engine, st *State, cc *CallCtx) (Value, bool) { return FuncV{Native: "blackhole:opt"}, true }
	for _, n := range []string{"WithEncoderLevel", "WithEncoderCRC", "WithEncoderConcurrency", "IgnoreChecksum", "WithDecoderConcurrency"} {
		e.reg(kz+n, opt)
	}
	e.reg(kz+"EncoderLevelFromZstd", func(e *Engine, st *State, cc *CallCtx) (Value, bool) { return e.k64(2), true })
	e.reg("(*"+kz+"Encoder).Close", func(e *Engine, st *State, cc *CallCtx) (Value, bool) { return IfaceV{}, true })
	e.reg("(*"+kz+"Decoder).Close", func(e *Engine, st *State, cc *CallCtx) (Value, bool) { return nil, true })
	// appendTo implements the documented "append to dst" of EncodeAll / DecodeAll
	appendTo := func(e *Engine, st *State, dst SliceV, src *smt.Term, n *smt.Term) Value {
		newLen := c.Add(dst.Len, n)
		if !(dst.Nil || dst.Base.Obj == 0) && e.branch(st, c.Ule(newLen, dst.Cap)) {
			_, doff, _ := e.bytesOfAny(st, dst)
			e.writeAt(st, Ptr{Obj: dst.Base.Obj, Path: dst.Base.Path, Idx: c.Add(doff, dst.Len)}, src, n)
			return SliceV{Base: dst.Base, Off: dst.Off, Len: newLen, Cap: dst.Cap}
		}
		na := c.ConstArr(8, c.Const(0, 8))
		if !(dst.Nil || dst.Base.Obj == 0) {
			oa, off, ln := e.bytesOfAny(st, dst)
			na = e.copyCells(st, na, e.k64(0), oa, off, ln)
		}
		na = e.copyCells(st, na, dst.Len, src, e.k64(0), n)
		id := e.newObj()
		st.dirty = true
		st.heap[id] = BArrV{A: na, Len: newLen, EW: 8}
		return SliceV{Base: Ptr{Obj: id}, Off: e.k64(0), Len: newLen, Cap: newLen}
	}
	e.reg("(*"+kz+"Encoder).EncodeAll", func(e *Engine, st *State, cc *CallCtx) (Value, bool) {
		if p, ok := cc.Args[0].(Ptr); !ok || p.IsNil() {
			e.runtimePanic(st, "nil pointer dereference (EncodeAll on nil encoder)")
			return nil, false
		}
		src, dst := cc.Args[1].(SliceV), cc.Args[2].(SliceV)
		sa, so, sl := e.bytesOf(st, src)
		f := e.newFrame(st, "zstd", sa, so, sl)
		return appendTo(e, st, dst, f.fr, f.flen), true
	})
	e.natives[VPkg+".ZstdEncodeAll"] = e.natives["(*"+kz+"Encoder).EncodeAll"]
	defer func() { e.natives[VPkg+".ZstdDecodeAll"] = e.natives["(*"+kz+"Decoder).DecodeAll"] }()
	e.reg("(*"+kz+"Decoder).DecodeAll", func(e *Engine, st *State, cc *CallCtx) (Value, bool) {
		if p, ok := cc.Args[0].(Ptr); !ok || p.IsNil() {
			e.runtimePanic(st, "nil pointer dereference (DecodeAll on nil decoder)")
			return nil, false
		}
		in, dst := cc.Args[1].(SliceV), cc.Args[2].(SliceV)
		ia, io, il := e.bytesOf(st, in)
		if f, ok := e.matchFrame(st, "zstd", ia, io, il); ok {
			return TupleV{appendTo(e, st, dst, f.src, f.slen), IfaceV{}}, true
		}
		fail := e.fresh(st, "bool", "garbagefails", 0)
		if e.branch(st, fail) {
			return TupleV{dst, e.mkError(st, "zstd: invalid input")}, true
		}
		m := e.fresh(st, "int", "garbagelen", 64)
		e.assume(st, c.Ule(m, e.k64(64)))
		return TupleV{appendTo(e, st, dst, c.Var("garbage", smt.Arr(8)), m), IfaceV{}}, true
	})
}
