package sym

import (
	"fmt"
	"go/token"
	"go/types"
	"math"
	"os"
	"strings"

	"golang.org/x/tools/go/ssa"

	"verif/engine/smt"
)

func (e *Engine) binop(st *State, op token.Token, x, y Value, xt, yt types.Type) Value {
	c := e.C
	switch xv := x.(type) {
	case *smt.Term:
		yv, ok := y.(*smt.Term)
		if !ok {
			panic(unsupported(fmt.Sprintf("binop %s on term and %T", op, y)))
		}
		if xv.S.K == smt.KBool {
			switch op {
			case token.EQL:
				return c.Eq(xv, yv)
			case token.NEQ:
				return c.Ne(xv, yv)
			case token.AND, token.LAND:
				return c.And(xv, yv)
			case token.OR, token.LOR:
				return c.Or(xv, yv)
			}
			panic(unsupported("bool binop " + op.String()))
		}
		_, signed, _ := intInfo(xt)
		switch op {
		case token.ADD:
			return c.Add(xv, yv)
		case token.SUB:
			return c.Sub(xv, yv)
		case token.MUL:
			return c.Mul(xv, yv)
		case token.QUO, token.REM:
			if !e.check(st, c.Ne(yv, c.Const(0, yv.S.W))) {
				e.runtimePanic(st, "integer divide by zero")
				panic(retryInstr{})
			}
			if op == token.QUO {
				if signed {
					return c.SDiv(xv, yv)
				}
				return c.UDiv(xv, yv)
			}
			if signed {
				return c.SRem(xv, yv)
			}
			return c.URem(xv, yv)
		case token.AND:
			return c.BAnd(xv, yv)
		case token.OR:
			return c.BOr(xv, yv)
		case token.XOR:
			return c.BXor(xv, yv)
		case token.AND_NOT:
			return c.BAnd(xv, c.BNot(yv))
		case token.SHL, token.SHR:
			_, ysigned, _ := intInfo(yt)
			if ysigned {
				if !e.check(st, c.Sge(yv, c.Const(0, yv.S.W))) {
					e.runtimePanic(st, "negative shift amount")
					panic(retryInstr{})
				}
			}
			w := xv.S.W
			var amt *smt.Term
			var big *smt.Term = c.False()
			if yv.S.W <= w {
				amt = c.ZExt(yv, w)
			} else {
				amt = c.Extract(yv, w-1, 0)
				big = c.Uge(yv, c.Const(uint64(w), yv.S.W))
			}
			switch {
			case op == token.SHL:
				return c.Ite(big, c.Const(0, w), c.Shl(xv, amt))
			case signed:
				return c.Ite(big, c.AShr(xv, c.Const(uint64(w-1), w)), c.AShr(xv, amt))
			default:
				return c.Ite(big, c.Const(0, w), c.LShr(xv, amt))
			}
		case token.EQL:
			return c.Eq(xv, yv)
		case token.NEQ:
			return c.Ne(xv, yv)
		case token.LSS:
			if signed {
				return c.Slt(xv, yv)
			}
			return c.Ult(xv, yv)
		case token.LEQ:
			if signed {
				return c.Sle(xv, yv)
			}
			return c.Ule(xv, yv)
		case token.GTR:
			if signed {
				return c.Sgt(xv, yv)
			}
			return c.Ugt(xv, yv)
		case token.GEQ:
			if signed {
				return c.Sge(xv, yv)
			}
			return c.Uge(xv, yv)
		}
		panic(unsupported("int binop " + op.String()))
	case FloatV:
		yv := y.(FloatV)
		switch op {
		case token.ADD:
			return xv + yv
		case token.SUB:
			return xv - yv
		case token.MUL:
			return xv * yv
		case token.QUO:
			return xv / yv
		case token.EQL:
			return c.Bool(xv == yv)
		case token.NEQ:
			return c.Bool(xv != yv)
		case token.LSS:
			return c.Bool(xv < yv)
		case token.LEQ:
			return c.Bool(xv <= yv)
		case token.GTR:
			return c.Bool(xv > yv)
		case token.GEQ:
			return c.Bool(xv >= yv)
		}
		panic(unsupported("float binop " + op.String()))
	case StrV:
		yv := y.(StrV)
		switch op {
		case token.ADD:
			return e.strConcat(st, xv, yv)
		case token.EQL:
			return e.strEq(st, xv, yv)
		case token.NEQ:
			return c.Not(e.strEq(st, xv, yv))
		case token.LSS, token.LEQ, token.GTR, token.GEQ:
			if xv.Conc && yv.Conc {
				switch op {
				case token.LSS:
					return c.Bool(xv.S < yv.S)
				case token.LEQ:
					return c.Bool(xv.S <= yv.S)
				case token.GTR:
					return c.Bool(xv.S > yv.S)
				default:
					return c.Bool(xv.S >= yv.S)
				}
			}
			lt, eq := e.strLess(st, xv, yv)
			switch op {
			case token.LSS:
				return lt
			case token.LEQ:
				return c.Or(lt, eq)
			case token.GTR:
				return c.Not(c.Or(lt, eq))
			default:
				return c.Not(lt)
			}
		}
		panic(unsupported("string binop " + op.String()))
	}
	switch op {
	case token.EQL:
		return e.eq(st, x, y)
	case token.NEQ:
		return c.Not(e.eq(st, x, y))
	}
	panic(unsupported(fmt.Sprintf("binop %s on %T", op, x)))
}

// eq builds the Go == relation on two values of the same static type.
func (e *Engine) eq(st *State, x, y Value) *smt.Term {
	c := e.C
	switch xv := x.(type) {
	case *smt.Term:
		return c.Eq(xv, y.(*smt.Term))
	case FloatV:
		return c.Bool(xv == y.(FloatV))
	case StrV:
		return e.strEq(st, xv, y.(StrV))
	case Ptr:
		yv, ok := y.(Ptr)
		if !ok {
			return c.False()
		}
		if xv.Obj != yv.Obj || xv.Path != yv.Path {
			return c.False()
		}
		if xv.Idx == nil && yv.Idx == nil {
			return c.True()
		}
		xi, yi := xv.Idx, yv.Idx
		if xi == nil {
			xi = e.k64(0)
		}
		if yi == nil {
			yi = e.k64(0)
		}
		return c.Eq(xi, yi)
	case IfaceV:
		yv := y.(IfaceV)
		if xv.T == nil || yv.T == nil {
			return c.Bool(xv.T == nil && yv.T == nil)
		}
		if !types.Identical(xv.T, yv.T) {
			return c.False()
		}
		return e.eq(st, xv.V, yv.V)
	case StructV:
		yv := y.(StructV)
		var cs []*smt.Term
		for i := range xv.F {
			cs = append(cs, e.eq(st, xv.F[i], yv.F[i]))
		}
		return c.And(cs...)
	case ArrV:
		yv := y.(ArrV)
		var cs []*smt.Term
		for i := range xv.E {
			cs = append(cs, e.eq(st, xv.E[i], yv.E[i]))
		}
		return c.And(cs...)
	case BArrV:
		yv := y.(BArrV)
		n := xv.Len.Val
		var cs []*smt.Term
		for i := uint64(0); i < n; i++ {
			cs = append(cs, c.Eq(c.Select(xv.A, e.k64(i)), c.Select(yv.A, e.k64(i))))
		}
		return c.And(cs...)
	case SliceV:
		yv := y.(SliceV)
		if xv.Nil && yv.Nil {
			return c.True()
		}
		if yv.Nil {
			return c.Bool(xv.Nil)
		}
		if xv.Nil {
			return c.Bool(yv.Nil)
		}
		panic(unsupported("slice comparison"))
	case MapRef:
		return c.Bool(xv.Obj == y.(MapRef).Obj)
	case ChanRef:
		return c.Bool(xv.Obj == y.(ChanRef).Obj)
	case FuncV:
		yv := y.(FuncV)
		return c.Bool(xv.Fn == yv.Fn && xv.Blt == yv.Blt && xv.Native == yv.Native && len(xv.Bind) == 0 && len(yv.Bind) == 0)
	case NativeV:
		yv, ok := y.(NativeV)
		return c.Bool(ok && xv.V == yv.V)
	case nil:
		return c.Bool(y == nil)
	}
	panic(unsupported(fmt.Sprintf("== on %T", x)))
}

// ---------------------------------------------------------------------------
// strings

func (e *Engine) strSym(s StrV) (arr, ln *smt.Term) {
	if !s.Conc {
		return s.A, s.Len
	}
	c := e.C
	a := c.ConstArr(8, c.Const(0, 8))
	for i := 0; i < len(s.S); i++ {
		a = c.Store(a, e.k64(uint64(i)), c.Const(uint64(s.S[i]), 8))
	}
	return a, e.k64(uint64(len(s.S)))
}

func (e *Engine) strLen(s StrV) *smt.Term {
	if s.Conc {
		return e.k64(uint64(len(s.S)))
	}
	return s.Len
}

// concStr turns a symbolic string with all-constant content into a concrete one if possible.
func (e *Engine) concStr(s StrV) (string, bool) {
	if s.Conc {
		return s.S, true
	}
	if !s.Len.IsConst() {
		return "", false
	}
	b := make([]byte, s.Len.Val)
	for i := range b {
		v := e.C.Select(s.A, e.k64(uint64(i)))
		if !v.IsConst() {
			return "", false
		}
		b[i] = byte(v.Val)
	}
	return string(b), true
}

func (e *Engine) normStr(s StrV) StrV {
	if s.Conc {
		return s
	}
	if cs, ok := e.concStr(s); ok {
		return StrV{Conc: true, S: cs}
	}
	return s
}

func (e *Engine) strEq(st *State, x, y StrV) *smt.Term {
	c := e.C
	x, y = e.normStr(x), e.normStr(y)
	if x.Conc && y.Conc {
		return c.Bool(x.S == y.S)
	}
	xa, xl := e.strSym(x)
	ya, yl := e.strSym(y)
	var n uint64
	switch {
	case xl.IsConst():
		n = xl.Val
	case yl.IsConst():
		n = yl.Val
	default:
		n = e.upperBound(st, xl)
		if n > 4096 {
			panic(unsupported("comparison of unbounded symbolic strings"))
		}
	}
	cs := []*smt.Term{c.Eq(xl, yl)}
	for i := uint64(0); i < n; i++ {
		ki := e.k64(i)
		cs = append(cs, c.Or(c.Uge(ki, xl), c.Eq(c.Select(xa, ki), c.Select(ya, ki))))
	}
	return c.And(cs...)
}

// strLess returns (x<y, x==y) for symbolic strings of bounded length.
func (e *Engine) strLess(st *State, x, y StrV) (*smt.Term, *smt.Term) {
	c := e.C
	xa, xl := e.strSym(x)
	ya, yl := e.strSym(y)
	n := e.upperBound(st, xl)
	if m := e.upperBound(st, yl); m > n {
		n = m
	}
	if n > 256 {
		panic(unsupported("ordering of unbounded symbolic strings"))
	}
	// evaluate from the back: lt_i = (both have i) ? (x[i]<y[i] | x[i]==y[i] & lt_{i+1}) : (i>=xl & i<yl)
	lt := c.False()
	eqAll := c.Eq(xl, yl)
	for i := int(n); i >= 0; i-- {
		ki := e.k64(uint64(i))
		xin, yin := c.Ult(ki, xl), c.Ult(ki, yl)
		xb, yb := c.Select(xa, ki), c.Select(ya, ki)
		both := c.And(xin, yin)
		lt = c.Ite(both, c.Or(c.Ult(xb, yb), c.And(c.Eq(xb, yb), lt)), c.And(c.Not(xin), yin))
		eqAll = c.And(eqAll, c.Or(c.Not(xin), c.Eq(xb, yb)))
	}
	return lt, eqAll
}

func (e *Engine) strConcat(st *State, x, y StrV) Value {
	x, y = e.normStr(x), e.normStr(y)
	if x.Conc && y.Conc {
		return StrV{Conc: true, S: x.S + y.S}
	}
	c := e.C
	xa, xl := e.strSym(x)
	ya, yl := e.strSym(y)
	n := e.upperBound(st, yl)
	if n > 4096 {
		panic(unsupported("concatenation of unbounded symbolic string"))
	}
	a := xa
	for i := uint64(0); i < n; i++ {
		ki := e.k64(i)
		st2 := c.Store(a, c.Add(xl, ki), c.Select(ya, ki))
		if yl.IsConst() {
			a = st2
		} else {
			a = c.Ite(c.Ult(ki, yl), st2, a)
		}
	}
	return StrV{A: a, Len: c.Add(xl, yl)}
}

func (e *Engine) strIndex(st *State, s StrV, i *smt.Term) (Value, bool) {
	c := e.C
	i = e.sext64(i)
	if !e.check(st, c.Ult(i, e.strLen(s))) {
		e.runtimePanic(st, "index out of range (string)")
		return nil, false
	}
	if s.Conc && i.IsConst() {
		return c.Const(uint64(s.S[i.Val]), 8), true
	}
	a, _ := e.strSym(s)
	return c.Select(a, i), true
}

// bytesOf returns the (array, offset, len) view of a byte slice.
func (e *Engine) bytesOf(st *State, s SliceV) (arr, off, ln *smt.Term) {
	if s.Nil || s.Base.Obj == 0 {
		return e.C.ConstArr(8, e.C.Const(0, 8)), e.k64(0), e.k64(0)
	}
	b := e.objCell(st, s.Base).(BArrV)
	off = s.Off
	if s.Base.Idx != nil {
		off = e.C.Add(s.Base.Idx, off)
	}
	return b.A, off, s.Len
}

// copyCells returns dst array with n cells copied from src[so..] to dst[do..] (n symbolic, bounded).
func (e *Engine) copyCells(st *State, dst, do, src, so, n *smt.Term) *smt.Term {
	c := e.C
	if n.IsConst() {
		// read all first (overlap-safe)
		vals := make([]*smt.Term, n.Val)
		for i := range vals {
			vals[i] = c.Select(src, c.Add(so, e.k64(uint64(i))))
		}
		for i := range vals {
			dst = c.Store(dst, c.Add(do, e.k64(uint64(i))), vals[i])
		}
		return dst
	}
	ub := e.upperBound(st, n)
	if ub > 8192 {
		panic(unsupported("copy of unbounded symbolic length"))
	}
	if os.Getenv("GOSMT_DEBUG") != "" {
		sc, refs := smt.Script([]*smt.Term{n})
		fmt.Fprintf(os.Stderr, "symbolic-length copy (ub=%d) at %s:\n%s => %s\n", ub, e.siteIn(st), sc, refs[0])
	}
	vals := make([]*smt.Term, ub)
	for i := range vals {
		vals[i] = c.Select(src, c.Add(so, e.k64(uint64(i))))
	}
	// value-level ite (a store of the old value is a no-op) instead of an ite over arrays:
	// distinct i write distinct cells, so the old value can be read from the original dst
	orig := dst
	for i := range vals {
		ki := e.k64(uint64(i))
		at := c.Add(do, ki)
		dst = c.Store(dst, at, c.Ite(c.Ult(ki, n), vals[i], c.Select(orig, at)))
	}
	return dst
}

func (e *Engine) sliceToStr(st *State, s SliceV) StrV {
	arr, off, ln := e.bytesOf(st, s)
	if ln.IsConst() && off.IsConst() {
		b := make([]byte, ln.Val)
		all := true
		for i := range b {
			v := e.C.Select(arr, e.k64(off.Val+uint64(i)))
			if !v.IsConst() {
				all = false
				break
			}
			b[i] = byte(v.Val)
		}
		if all {
			return StrV{Conc: true, S: string(b)}
		}
	}
	na := e.copyCells(st, e.C.ConstArr(8, e.C.Const(0, 8)), e.k64(0), arr, off, ln)
	return StrV{A: na, Len: ln}
}

func (e *Engine) strToSlice(st *State, s StrV) SliceV {
	a, l := e.strSym(s)
	id := e.newObj()
	st.dirty = true
	st.heap[id] = BArrV{A: a, Len: l, EW: 8}
	return SliceV{Base: Ptr{Obj: id}, Off: e.k64(0), Len: l, Cap: l}
}

// ---------------------------------------------------------------------------
// conversions

func (e *Engine) convert(st *State, x Value, from, to types.Type) Value {
	c := e.C
	fu, tu := from.Underlying(), to.Underlying()
	if tw, _, ok := intInfo(to); ok {
		if nv, isN := x.(NativeV); isN && nv.Tag == "uintptr" && tw == 64 {
			return nv // uintptr -> C.uintptr_t and the like: still the same address
		}
		switch xv := x.(type) {
		case FloatSym:
			if tw == 64 {
				return xv.Sec
			}
			return c.Extract(xv.Sec, tw-1, 0)
		case *smt.Term:
			_, fs, _ := intInfo(from)
			if xv.S.W >= tw {
				return c.Extract(xv, tw-1, 0)
			}
			if fs {
				return c.SExt(xv, tw)
			}
			return c.ZExt(xv, tw)
		case FloatV:
			return c.Const(uint64(int64(float64(xv))), tw)
		case Ptr:
			if tb, ok := tu.(*types.Basic); ok && tb.Kind() == types.Uintptr {
				return NativeV{Tag: "uintptr", V: xv}
			}
		}
	}
	if isFloatT(to) {
		switch xv := x.(type) {
		case FloatV:
			if tb := tu.(*types.Basic); tb.Kind() == types.Float32 {
				return FloatV(float32(xv))
			}
			return xv
		case *smt.Term:
			if !xv.IsConst() {
				panic(unsupported("symbolic integer to float conversion"))
			}
			_, fs, _ := intInfo(from)
			if fs {
				return FloatV(float64(xv.SVal()))
			}
			return FloatV(float64(xv.Val))
		}
	}
	if isStringT(to) {
		switch xv := x.(type) {
		case StrV:
			return xv
		case SliceV:
			el := fu.(*types.Slice).Elem().Underlying().(*types.Basic)
			if el.Kind() == types.Uint8 {
				return e.sliceToStr(st, xv)
			}
			panic(unsupported("[]rune to string"))
		case *smt.Term:
			if xv.IsConst() {
				return StrV{Conc: true, S: string(rune(xv.SVal()))}
			}
			panic(unsupported("symbolic rune to string"))
		}
	}
	if ts, ok := tu.(*types.Slice); ok {
		if s, ok := x.(StrV); ok {
			if ts.Elem().Underlying().(*types.Basic).Kind() == types.Uint8 {
				return e.strToSlice(st, s)
			}
			panic(unsupported("string to []rune"))
		}
		if s, ok := x.(SliceV); ok {
			return s
		}
	}
	switch tu.(type) {
	case *types.Pointer:
		if nv, ok := x.(NativeV); ok && nv.Tag == "uintptr" {
			return nv.V
		}
		return x
	case *types.Basic:
		if tu.(*types.Basic).Kind() == types.UnsafePointer {
			if nv, ok := x.(NativeV); ok && nv.Tag == "uintptr" {
				return nv.V
			}
			return x
		}
	}
	panic(unsupported(fmt.Sprintf("convert %s -> %s (%T)", from, to, x)))
}

// ---------------------------------------------------------------------------
// slicing

func (e *Engine) sliceOp(st *State, f *Frame, in *ssa.Slice) (Value, bool) {
	c := e.C
	x := e.val(st, f, in.X)
	get := func(v ssa.Value) *smt.Term {
		if v == nil {
			return nil
		}
		return e.toIdx64(e.val(st, f, v).(*smt.Term), v.Type())
	}
	lo, hi, mx := get(in.Low), get(in.High), get(in.Max)
	if lo == nil {
		lo = e.k64(0)
	}
	switch xv := x.(type) {
	case StrV:
		ln := e.strLen(xv)
		if hi == nil {
			hi = ln
		}
		if !e.check(st, c.And(c.Ule(lo, hi), c.Ule(hi, ln))) {
			e.runtimePanic(st, "slice bounds out of range (string)")
			return nil, false
		}
		if xv.Conc && lo.IsConst() && hi.IsConst() {
			return StrV{Conc: true, S: xv.S[lo.Val:hi.Val]}, true
		}
		a, _ := e.strSym(xv)
		n := c.Sub(hi, lo)
		if lo.IsConst() && lo.Val == 0 {
			return StrV{A: a, Len: n}, true
		}
		na := e.copyCells(st, c.ConstArr(8, c.Const(0, 8)), e.k64(0), a, lo, n)
		return StrV{A: na, Len: n}, true
	case SliceV:
		if hi == nil {
			hi = xv.Len
		}
		cp := xv.Cap
		if mx != nil {
			if !e.check(st, c.And(c.Ule(mx, xv.Cap), c.Ule(hi, mx))) {
				e.runtimePanic(st, "slice bounds out of range (max)")
				return nil, false
			}
			cp = mx
		}
		if !e.check(st, c.And(c.Ule(lo, hi), c.Ule(hi, cp))) {
			e.runtimePanic(st, "slice bounds out of range")
			return nil, false
		}
		if xv.Nil {
			return xv, true
		}
		return SliceV{Base: xv.Base, Off: c.Add(xv.Off, lo), Len: c.Sub(hi, lo), Cap: c.Sub(cp, lo)}, true
	case Ptr:
		if xv.IsNil() {
			e.runtimePanic(st, "nil pointer dereference")
			return nil, false
		}
		at := in.X.Type().Underlying().(*types.Pointer).Elem().Underlying().(*types.Array)
		n := e.k64(uint64(at.Len()))
		if hi == nil {
			hi = n
		}
		cp := n
		if mx != nil {
			if !e.check(st, c.And(c.Ule(mx, n), c.Ule(hi, mx))) {
				e.runtimePanic(st, "slice bounds out of range (max)")
				return nil, false
			}
			cp = mx
		}
		if !e.check(st, c.And(c.Ule(lo, hi), c.Ule(hi, cp))) {
			e.runtimePanic(st, "slice bounds out of range")
			return nil, false
		}
		return SliceV{Base: xv, Off: lo, Len: c.Sub(hi, lo), Cap: c.Sub(cp, lo)}, true
	}
	panic(unsupported(fmt.Sprintf("slice of %T", x)))
}

// ---------------------------------------------------------------------------
// type assertions

func (e *Engine) implements(t types.Type, it *types.Interface) bool {
	return types.Implements(t, it)
}

func (e *Engine) typeAssert(st *State, in *ssa.TypeAssert, x IfaceV) (Value, bool) {
	c := e.C
	ok := false
	var res Value
	if x.T != nil {
		if it, isI := in.AssertedType.Underlying().(*types.Interface); isI {
			ok = e.implements(x.T, it)
			if ok {
				res = x
			}
		} else {
			ok = types.Identical(x.T, in.AssertedType)
			if ok {
				res = x.V
			}
		}
	}
	if in.CommaOk {
		if !ok {
			res = e.Zero(in.AssertedType)
		}
		return TupleV{res, c.Bool(ok)}, true
	}
	if !ok {
		ts := "nil"
		if x.T != nil {
			ts = x.T.String()
		}
		e.runtimePanic(st, "interface conversion: "+ts+" is not "+in.AssertedType.String())
		return nil, false
	}
	return res, true
}

// ---------------------------------------------------------------------------
// maps

func (e *Engine) mapFind(st *State, m MapV, k Value) int {
	for i := range m.Keys {
		if m.Deleted[i] {
			continue
		}
		if e.branch(st, e.eq(st, m.Keys[i], k)) {
			return i
		}
	}
	return -1
}

func (e *Engine) mapLookup(st *State, r MapRef, k Value, kt types.Type) (Value, bool) {
	if r.Obj == 0 {
		return nil, false
	}
	m := st.heap[r.Obj].(MapV)
	i := e.mapFind(st, m, k)
	if i < 0 {
		return nil, false
	}
	return m.Vals[i], true
}

func (e *Engine) mapUpdate(st *State, r MapRef, k, v Value, kt types.Type) {
	m := st.heap[r.Obj].(MapV)
	i := e.mapFind(st, m, k)
	nm := MapV{Keys: append([]Value(nil), m.Keys...), Vals: append([]Value(nil), m.Vals...), Deleted: append([]bool(nil), m.Deleted...)}
	if i >= 0 {
		nm.Vals[i] = v
	} else {
		nm.Keys = append(nm.Keys, k)
		nm.Vals = append(nm.Vals, v)
		nm.Deleted = append(nm.Deleted, false)
	}
	st.dirty = true
	st.heap[r.Obj] = nm
}

func (e *Engine) mapDelete(st *State, r MapRef, k Value) {
	if r.Obj == 0 {
		return
	}
	m := st.heap[r.Obj].(MapV)
	i := e.mapFind(st, m, k)
	if i < 0 {
		return
	}
	nm := MapV{Keys: m.Keys, Vals: m.Vals, Deleted: append([]bool(nil), m.Deleted...)}
	nm.Deleted[i] = true
	st.dirty = true
	st.heap[r.Obj] = nm
}

func (m MapV) count() int {
	n := 0
	for _, d := range m.Deleted {
		if !d {
			n++
		}
	}
	return n
}

// ---------------------------------------------------------------------------
// channels (sequential model)

func (e *Engine) chanSend(st *State, r ChanRef, v Value) {
	if r.Obj == 0 {
		e.blocks(st, "send on nil channel blocks forever")
		return
	}
	ch := st.heap[r.Obj].(ChanV)
	if ch.Closed {
		e.runtimePanic(st, "send on closed channel")
		panic(retryInstr{})
	}
	if len(ch.Q) >= ch.Cap {
		e.blocks(st, fmt.Sprintf("send on full channel (cap %d) with no receiver blocks forever", ch.Cap))
		return
	}
	ch.Q = append(append([]Value(nil), ch.Q...), v)
	st.dirty = true
	st.heap[r.Obj] = ch
}

func (e *Engine) chanRecv(st *State, r ChanRef, commaOk bool, t types.Type) Value {
	if r.Obj == 0 {
		e.blocks(st, "receive on nil channel blocks forever")
		panic(retryInstr{})
	}
	ch := st.heap[r.Obj].(ChanV)
	var et types.Type
	if commaOk {
		et = t.(*types.Tuple).At(0).Type()
	} else {
		et = t
	}
	if len(ch.Q) == 0 {
		if ch.Closed {
			z := e.Zero(et)
			if commaOk {
				return TupleV{z, e.C.False()}
			}
			return z
		}
		e.blocks(st, "receive on empty channel with no sender blocks forever")
		panic(retryInstr{})
	}
	v := ch.Q[0]
	ch.Q = append([]Value(nil), ch.Q[1:]...)
	st.dirty = true
	st.heap[r.Obj] = ch
	if commaOk {
		return TupleV{v, e.C.True()}
	}
	return v
}

func (e *Engine) blocks(st *State, msg string) {
	site := e.site(st)
	st.done = true
	e.violationAt(st, "blocks", msg, site)
}

func (e *Engine) selectOp(st *State, f *Frame, in *ssa.Select) {
	// sequential model: pick the first ready case in order; if none is ready, default if non-blocking,
	// otherwise the path blocks forever.
	c := e.C
	tt := in.Type().(*types.Tuple)
	mk := func(idx int, recvOk bool, recvVals map[int]Value) Value {
		r := TupleV{c.Const(uint64(idx), 64), c.Bool(recvOk)}
		ri := 0
		for i, s := range in.States {
			if s.Dir == types.RecvOnly {
				if v, ok := recvVals[i]; ok {
					r = append(r, v)
				} else {
					r = append(r, e.Zero(tt.At(2+ri).Type()))
				}
				ri++
			}
		}
		return r
	}
	// two passes: real channels first, timers (ready only when nothing else is) second
	for pass := 0; pass < 2; pass++ {
		for i, s := range in.States {
			ch := e.val(st, f, s.Chan).(ChanRef)
			if ch.Obj == 0 {
				continue
			}
			cv := st.heap[ch.Obj]
			if nv, ok := cv.(NativeV); ok {
				if nv.Tag == "chan-timer" {
					if pass == 1 {
						e.setEnv(st, f, in, mk(i, true, map[int]Value{i: StructV{}}))
						f.pc++
						return
					}
					continue
				}
				if pass == 1 {
					continue
				}
				// native pseudo channel: readiness is decided by the native hook
				if ready, val := e.nativeChanReady(st, nv); ready {
					e.setEnv(st, f, in, mk(i, true, map[int]Value{i: val}))
					f.pc++
					return
				}
				continue
			}
			if pass == 1 {
				continue
			}
			chv := cv.(ChanV)
			if s.Dir == types.SendOnly {
				if chv.Closed {
					e.runtimePanic(st, "send on closed channel")
					return
				}
				if len(chv.Q) < chv.Cap {
					v := e.val(st, f, s.Send)
					chv.Q = append(append([]Value(nil), chv.Q...), v)
					st.dirty = true
					st.heap[ch.Obj] = chv
					f.env[in] = mk(i, false, nil)
					f.pc++
					return
				}
			} else {
				if len(chv.Q) > 0 {
					v := chv.Q[0]
					chv.Q = append([]Value(nil), chv.Q[1:]...)
					st.dirty = true
					st.heap[ch.Obj] = chv
					f.env[in] = mk(i, true, map[int]Value{i: v})
					f.pc++
					return
				}
				if chv.Closed {
					e.setEnv(st, f, in, mk(i, false, nil))
					f.pc++
					return
				}
			}
		}
	}
	if !in.Blocking {
		e.setEnv(st, f, in, mk(-1, false, nil))
		f.pc++
		return
	}
	e.blocks(st, "select with no ready case blocks forever")
}

func (e *Engine) nativeChanReady(st *State, nv NativeV) (bool, Value) {
	switch nv.Tag {
	case "chan-never":
		return false, nil
	case "chan-symbolic":
		// readiness is a symbolic boolean
		b := nv.V.(*smt.Term)
		if e.branch(st, b) {
			return true, StructV{}
		}
		return false, nil
	}
	return false, nil
}

// ---------------------------------------------------------------------------
// builtins

func (e *Engine) builtin(st *State, b *ssa.Builtin, args []Value, cc *ssa.CallCommon) (Value, bool) {
	c := e.C
	switch b.Name() {
	case "len":
		switch x := args[0].(type) {
		case SliceV:
			return x.Len, true
		case StrV:
			return e.strLen(x), true
		case MapRef:
			if x.Obj == 0 {
				return e.k64(0), true
			}
			return e.k64(uint64(st.heap[x.Obj].(MapV).count())), true
		case BArrV:
			return x.Len, true
		case ArrV:
			return e.k64(uint64(len(x.E))), true
		case ChanRef:
			if x.Obj == 0 {
				return e.k64(0), true
			}
			return e.k64(uint64(len(st.heap[x.Obj].(ChanV).Q))), true
		case Ptr:
			at := cc.Args[0].Type().Underlying().(*types.Pointer).Elem().Underlying().(*types.Array)
			return e.k64(uint64(at.Len())), true
		}
	case "cap":
		switch x := args[0].(type) {
		case SliceV:
			return x.Cap, true
		case BArrV:
			return x.Len, true
		case ArrV:
			return e.k64(uint64(len(x.E))), true
		case ChanRef:
			if x.Obj == 0 {
				return e.k64(0), true
			}
			return e.k64(uint64(st.heap[x.Obj].(ChanV).Cap)), true
		case Ptr:
			at := cc.Args[0].Type().Underlying().(*types.Pointer).Elem().Underlying().(*types.Array)
			return e.k64(uint64(at.Len())), true
		}
	case "min", "max":
		r := args[0]
		_, signed, _ := intInfo(cc.Args[0].Type())
		for _, a := range args[1:] {
			if fl, ok := r.(FloatV); ok {
				if b.Name() == "min" {
					r = FloatV(math.Min(float64(fl), float64(a.(FloatV))))
				} else {
					r = FloatV(math.Max(float64(fl), float64(a.(FloatV))))
				}
				continue
			}
			x, y := r.(*smt.Term), a.(*smt.Term)
			var lt *smt.Term
			if signed {
				lt = c.Slt(x, y)
			} else {
				lt = c.Ult(x, y)
			}
			if b.Name() == "min" {
				r = c.Ite(lt, x, y)
			} else {
				r = c.Ite(lt, y, x)
			}
		}
		return r, true
	case "copy":
		return e.builtinCopy(st, args, cc)
	case "append":
		return e.builtinAppend(st, args, cc)
	case "delete":
		e.mapDelete(st, args[0].(MapRef), args[1])
		return nil, true
	case "clear":
		switch x := args[0].(type) {
		case MapRef:
			if x.Obj != 0 {
				st.dirty = true
				st.heap[x.Obj] = MapV{}
			}
			return nil, true
		case SliceV:
			if x.Nil {
				return nil, true
			}
			cell := e.objCell(st, x.Base)
			if bb, ok := cell.(BArrV); ok {
				_, off, ln := e.bytesOfAny(st, x)
				zero := c.ConstArr(bb.EW, c.Const(0, bb.EW))
				bb.A = e.copyCells(st, bb.A, off, zero, e.k64(0), ln)
				e.setCell(st, Ptr{Obj: x.Base.Obj, Path: x.Base.Path}, bb)
				return nil, true
			}
			arr := cell.(ArrV)
			et := cc.Args[0].Type().Underlying().(*types.Slice).Elem()
			na := ArrV{E: append([]Value(nil), arr.E...)}
			for i := x.Off.Val; i < x.Off.Val+x.Len.Val; i++ {
				na.E[i] = e.Zero(et)
			}
			e.setCell(st, x.Base, na)
			return nil, true
		}
	case "close":
		ch := args[0].(ChanRef)
		if ch.Obj == 0 {
			e.runtimePanic(st, "close of nil channel")
			return nil, false
		}
		cv := st.heap[ch.Obj].(ChanV)
		if cv.Closed {
			e.runtimePanic(st, "close of closed channel")
			return nil, false
		}
		cv.Closed = true
		st.dirty = true
		st.heap[ch.Obj] = cv
		return nil, true
	case "recover":
		if st.panic_ != nil && st.top().isDefer {
			v := st.panic_.Val
			st.dirty = true
			st.panic_ = nil
			st.recovered = true
			if v == nil {
				v = IfaceV{}
			}
			return v, true
		}
		return IfaceV{}, true
	case "print", "println":
		return nil, true
	case "ssa:wrapnilchk":
		if p, ok := args[0].(Ptr); ok && p.IsNil() {
			e.runtimePanic(st, "nil pointer dereference (value method on nil pointer)")
			return nil, false
		}
		return args[0], true
	case "String": // unsafe.String
		p := args[0].(Ptr)
		n := e.sext64(args[1].(*smt.Term))
		if p.IsNil() {
			return StrV{Conc: true}, true
		}
		idx := p.Idx
		if idx == nil {
			idx = e.k64(0)
		}
		return e.sliceToStr(st, SliceV{Base: Ptr{Obj: p.Obj, Path: p.Path}, Off: idx, Len: n, Cap: n}), true
	case "StringData":
		s := args[0].(StrV)
		sl := e.strToSlice(st, s)
		return Ptr{Obj: sl.Base.Obj, Idx: e.k64(0)}, true
	case "SliceData":
		s := args[0].(SliceV)
		if s.Nil {
			return Ptr{}, true
		}
		idx := s.Off
		if s.Base.Idx != nil {
			idx = c.Add(s.Base.Idx, idx)
		}
		return Ptr{Obj: s.Base.Obj, Path: s.Base.Path, Idx: idx}, true
	case "Slice": // unsafe.Slice
		p := args[0].(Ptr)
		n := e.sext64(args[1].(*smt.Term))
		if p.IsNil() {
			return e.Zero(cc.Signature().Results().At(0).Type()), true
		}
		idx := p.Idx
		if idx == nil {
			idx = e.k64(0)
		}
		return SliceV{Base: Ptr{Obj: p.Obj, Path: p.Path}, Off: idx, Len: n, Cap: n}, true
	}
	panic(unsupported(fmt.Sprintf("builtin %s on %T", b.Name(), firstOrNil(args))))
}

func firstOrNil(a []Value) Value {
	if len(a) == 0 {
		return nil
	}
	return a[0]
}

func (e *Engine) bytesOfAny(st *State, s SliceV) (arr, off, ln *smt.Term) {
	if s.Nil || s.Base.Obj == 0 {
		return nil, e.k64(0), e.k64(0)
	}
	b := e.objCell(st, s.Base).(BArrV)
	off = s.Off
	if s.Base.Idx != nil {
		off = e.C.Add(s.Base.Idx, off)
	}
	return b.A, off, s.Len
}

func (e *Engine) builtinCopy(st *State, args []Value, cc *ssa.CallCommon) (Value, bool) {
	c := e.C
	dst := args[0].(SliceV)
	var srcArr, srcOff, srcLen *smt.Term
	composite := false
	var srcS SliceV
	switch s := args[1].(type) {
	case StrV:
		srcArr, srcLen = e.strSym(s)
		srcOff = e.k64(0)
	case SliceV:
		srcS = s
		if s.Nil || s.Base.Obj == 0 {
			return e.k64(0), true
		}
		if _, ok := e.objCell(st, s.Base).(BArrV); ok {
			srcArr, srcOff, srcLen = e.bytesOfAny(st, s)
		} else {
			composite = true
		}
	}
	if dst.Nil || dst.Base.Obj == 0 {
		return e.k64(0), true
	}
	if composite {
		d := e.objCell(st, dst.Base).(ArrV)
		s := e.objCell(st, srcS.Base).(ArrV)
		if !dst.Len.IsConst() || !srcS.Len.IsConst() || !dst.Off.IsConst() || !srcS.Off.IsConst() {
			panic(unsupported("copy of composite slices with symbolic bounds"))
		}
		n := dst.Len.Val
		if srcS.Len.Val < n {
			n = srcS.Len.Val
		}
		tmp := make([]Value, n)
		copy(tmp, s.E[srcS.Off.Val:srcS.Off.Val+n])
		nd := ArrV{E: append([]Value(nil), d.E...)}
		copy(nd.E[dst.Off.Val:], tmp)
		e.setCell(st, dst.Base, nd)
		return e.k64(n), true
	}
	n := c.Ite(c.Ult(srcLen, dst.Len), srcLen, dst.Len)
	if !n.IsConst() {
		// try to resolve the minimum under the path condition (keeps copies concrete-length)
		if e.feasible(st, c.Ugt(srcLen, dst.Len)) == smt.Unsat {
			n = srcLen
		} else if e.feasible(st, c.Ult(srcLen, dst.Len)) == smt.Unsat {
			n = dst.Len
		}
	}
	db := e.objCell(st, dst.Base).(BArrV)
	_, doff, _ := e.bytesOfAny(st, dst)
	db.A = e.copyCells(st, db.A, doff, srcArr, srcOff, n)
	e.setCell(st, Ptr{Obj: dst.Base.Obj, Path: dst.Base.Path}, db)
	return n, true
}

func (e *Engine) builtinAppend(st *State, args []Value, cc *ssa.CallCommon) (Value, bool) {
	c := e.C
	s := args[0].(SliceV)
	elemT := cc.Args[0].Type().Underlying().(*types.Slice).Elem()
	ew, isB, sg, scalar := isScalarElem(elemT)
	// source
	var addLen *smt.Term
	var srcArr, srcOff *smt.Term
	var srcVals []Value
	switch x := args[1].(type) {
	case StrV:
		srcArr, addLen = e.strSym(x)
		srcOff = e.k64(0)
	case SliceV:
		if x.Nil || x.Base.Obj == 0 {
			return s, true
		}
		if scalar {
			srcArr, srcOff, addLen = e.bytesOfAny(st, x)
		} else {
			if !x.Len.IsConst() || !x.Off.IsConst() {
				panic(unsupported("append of composite slice with symbolic length"))
			}
			a := e.objCell(st, x.Base).(ArrV)
			srcVals = a.E[x.Off.Val : x.Off.Val+x.Len.Val]
			addLen = x.Len
		}
	}
	newLen := c.Add(s.Len, addLen)
	inPlace := c.Ule(newLen, s.Cap)
	if s.Nil || s.Base.Obj == 0 {
		inPlace = c.Eq(addLen, e.k64(0))
	}
	if e.branch(st, inPlace) {
		if s.Nil || s.Base.Obj == 0 {
			return s, true
		}
		if scalar {
			b := e.objCell(st, s.Base).(BArrV)
			_, off, _ := e.bytesOfAny(st, s)
			b.A = e.copyCells(st, b.A, c.Add(off, s.Len), srcArr, srcOff, addLen)
			e.setCell(st, Ptr{Obj: s.Base.Obj, Path: s.Base.Path}, b)
		} else {
			a := e.objCell(st, s.Base).(ArrV)
			if !s.Len.IsConst() || !s.Off.IsConst() {
				panic(unsupported("append to composite slice with symbolic length"))
			}
			na := ArrV{E: append([]Value(nil), a.E...)}
			copy(na.E[s.Off.Val+s.Len.Val:], srcVals)
			e.setCell(st, s.Base, na)
		}
		return SliceV{Base: s.Base, Off: s.Off, Len: newLen, Cap: s.Cap}, true
	}
	// reallocate: new backing array with capacity exactly newLen (growth factor not modelled)
	id := e.newObj()
	if scalar {
		na := c.ConstArr(ew, c.Const(0, ew))
		if !(s.Nil || s.Base.Obj == 0) {
			oa, off, ln := e.bytesOfAny(st, s)
			na = e.copyCells(st, na, e.k64(0), oa, off, ln)
		}
		na = e.copyCells(st, na, s.Len, srcArr, srcOff, addLen)
		st.dirty = true
		st.heap[id] = BArrV{A: na, Len: newLen, EW: ew, Bool: isB, Signed: sg}
		return SliceV{Base: Ptr{Obj: id}, Off: e.k64(0), Len: newLen, Cap: newLen}, true
	}
	if !s.Len.IsConst() || !s.Off.IsConst() {
		panic(unsupported("append to composite slice with symbolic length"))
	}
	var el []Value
	if !(s.Nil || s.Base.Obj == 0) {
		a := e.objCell(st, s.Base).(ArrV)
		el = append(el, a.E[s.Off.Val:s.Off.Val+s.Len.Val]...)
	}
	el = append(el, srcVals...)
	n := e.k64(uint64(len(el)))
	// Capacity after growth: Go doubles small slices (then rounds to a size class). Spare capacity is
	// what makes two appends to the same slice alias, so composite slices grow by doubling here; the
	// size-class rounding is not modelled.
	capN := uint64(len(el))
	if s.Cap.IsConst() && 2*s.Cap.Val > capN && s.Cap.Val < 256 {
		capN = 2 * s.Cap.Val
	}
	for uint64(len(el)) < capN {
		el = append(el, e.Zero(elemT))
	}
	st.dirty = true
	st.heap[id] = ArrV{E: el}
	return SliceV{Base: Ptr{Obj: id}, Off: e.k64(0), Len: n, Cap: e.k64(capN)}, true
}

var _ = strings.HasPrefix
