package sym

import (
	"fmt"
	"go/types"
	"io"
	"sort"
	"strings"
	"time"

	"golang.org/x/tools/go/ssa"

	"verif/engine/smt"
)

type deferred struct {
	fn   Value
	args []Value
	call *ssa.CallCommon
}

type Frame struct {
	fn        *ssa.Function
	block     *ssa.BasicBlock
	prev      *ssa.BasicBlock
	pc        int
	env       map[ssa.Value]Value
	defers    []deferred
	unwinding bool // this frame is being unwound by a panic
	isDefer   bool // frame runs a deferred call
	symVisits map[int]int
	dest      ssa.Value // caller value receiving the result (nil for defers/go)
	discard   bool
	onRet     func(st *State, res Value) // engine-level continuation (rare)
	initPkg   *ssa.Package
}

// TraceEnt records one intrinsic-created symbolic input, in creation order.
type TraceEnt struct {
	Kind  string      // "u8","u16","u32","u64","int","bool","bytes","choice"
	Name  string
	Terms []*smt.Term // scalar: 1 term; bytes: cells 0..n-1 then length
	N     int
}

type PanicInfo struct {
	Val  Value
	Msg  string
	Site string
	Runtime bool
}

type State struct {
	id      int
	frames  []*Frame
	heap    map[int]Value
	pc      []*smt.Term
	trace   []TraceEnt
	panic_  *PanicInfo
	recovered bool
	forced  []bool
	fpos    int
	decided []bool
	dirty   bool
	steps   int
	inited  map[*ssa.Package]bool
	uncertain bool
	mayPanic int
	notes   []string
	reached map[string]bool
	done    bool
	cover   map[string]int
	memo    map[string]interface{}
}

type Violation struct {
	Harness string
	Kind    string // "assert", "panic", "blocks"
	Msg     string
	Site    string
	Trace   []TraceEnt
	Vals    [][]uint64
	Notes   []string
}

func (v *Violation) Signature() string {
	return fmt.Sprintf("%s/%s: %s", v.Harness, v.Kind, v.Msg)
}

type ReachInfo struct {
	Count int
	Trace []TraceEnt
	Vals  [][]uint64
}

type Report struct {
	Harness      string
	Paths        int
	Steps        int
	States       int
	Violations   []*Violation
	Reached      map[string]*ReachInfo
	Unwound      int
	UnwoundSites map[string]int
	Inconclusive []string
	Unsupported  []string
	AssertsChecked int
	AssertsProved  int
	ChecksProved   int // implicit runtime checks (bounds, nil, div) discharged as unsat
	Funcs        map[string]int
	Samples      []string
	Assumes      map[string]int
}

type Config struct {
	LoopBound   int // symbolic iterations per loop head per frame
	MaxSteps    int // per path
	MaxPaths    int
	BlackHole   []string // package path prefixes whose functions are no-ops
	NoInit      []string
	Summarise   map[string]bool
	MapOrder    map[string]bool // functions whose map ranges are explored in every order
	InlineGo    bool
	Verbose     bool
	MaxViolationsPerSig int
	MaxWall     time.Duration // exploration budget per harness (0 = none); exceeding it is reported as inconclusive
	Progress    bool
}

type Engine struct {
	C      *smt.Ctx
	S      *smt.Solver
	Prog   *ssa.Program
	Cfg    Config
	Log    io.Writer
	nextID int
	globalID map[*ssa.Global]int
	natives  map[string]NativeFn
	work   []*State
	rep    *Report
	nstates int
	sigCount map[string]int
	methodCache map[string]*ssa.Function
	ubCache map[int]uint64
	strIntern map[string]int
	typeIDs map[string]int
	tables  map[string][]*smt.Term // tabulated one-byte functions
	Params map[string]int
	uniq    map[string]int
	NoSlice bool
	QSites  map[string]int
	deadline time.Time
	lastProg time.Time
}

func NewEngine(prog *ssa.Program, solver *smt.Solver, cfg Config) *Engine {
	e := &Engine{C: smt.NewCtx(), S: solver, Prog: prog, Cfg: cfg, nextID: 1,
		globalID: map[*ssa.Global]int{}, natives: map[string]NativeFn{},
		methodCache: map[string]*ssa.Function{}, ubCache: map[int]uint64{}}
	if e.Cfg.LoopBound == 0 {
		e.Cfg.LoopBound = 8
	}
	if e.Cfg.MaxSteps == 0 {
		e.Cfg.MaxSteps = 2000000
	}
	if e.Cfg.MaxPaths == 0 {
		e.Cfg.MaxPaths = 200000
	}
	if e.Cfg.MaxViolationsPerSig == 0 {
		e.Cfg.MaxViolationsPerSig = 1
	}
	registerNatives(e)
	return e
}

func (e *Engine) newObj() int {
	e.nextID++
	return e.nextID
}

func (st *State) top() *Frame { return st.frames[len(st.frames)-1] }

func (st *State) clone(e *Engine) *State {
	e.nstates++
	n := &State{id: e.nstates, heap: make(map[int]Value, len(st.heap)), steps: st.steps,
		panic_: st.panic_, recovered: st.recovered, uncertain: st.uncertain, mayPanic: st.mayPanic}
	for k, v := range st.heap {
		n.heap[k] = v
	}
	n.pc = append([]*smt.Term(nil), st.pc...)
	n.trace = append([]TraceEnt(nil), st.trace...)
	n.notes = append([]string(nil), st.notes...)
	n.inited = make(map[*ssa.Package]bool, len(st.inited))
	for k, v := range st.inited {
		n.inited[k] = v
	}
	n.memo = st.memo
	n.reached = map[string]bool{}
	for k, v := range st.reached {
		n.reached[k] = v
	}
	n.frames = make([]*Frame, len(st.frames))
	for i, f := range st.frames {
		nf := *f
		nf.env = make(map[ssa.Value]Value, len(f.env))
		for k, v := range f.env {
			nf.env[k] = v
		}
		nf.defers = append([]deferred(nil), f.defers...)
		nf.symVisits = make(map[int]int, len(f.symVisits))
		for k, v := range f.symVisits {
			nf.symVisits[k] = v
		}
		n.frames[i] = &nf
	}
	return n
}

func (e *Engine) assume(st *State, c *smt.Term) {
	if c.IsTrue() {
		return
	}
	st.pc = append(st.pc, c)
}

// feasible checks satisfiability of pc ∧ extra.
func (e *Engine) feasible(st *State, extra *smt.Term) smt.Result {
	if extra.IsFalse() {
		return smt.Unsat
	}
	as := append(e.relevant(st.pc, extra), extra)
	r, _, used := e.S.Check(as, nil)
	if e.QSites != nil && used != "cache" && len(st.frames) > 0 {
		e.QSites[e.siteIn(st)]++
	}
	return r
}

// relevant returns the conjuncts of pc that (transitively) share a variable with q. The rest of the
// path condition is satisfiable on its own (a live path is feasible) and independent of q, so
// pc ∧ q is satisfiable iff relevant(pc,q) ∧ q is. Smaller scripts, and far more cache hits.
func (e *Engine) relevant(pc []*smt.Term, q *smt.Term) []*smt.Term {
	if e.NoSlice {
		return append([]*smt.Term{}, pc...)
	}
	rel := map[int32]bool{}
	for _, v := range e.C.VarSet(q) {
		rel[v] = true
	}
	if len(rel) == 0 {
		return nil
	}
	taken := make([]bool, len(pc))
	var out []*smt.Term
	for changed := true; changed; {
		changed = false
		for i, c := range pc {
			if taken[i] {
				continue
			}
			vs := e.C.VarSet(c)
			hit := false
			for _, v := range vs {
				if rel[v] {
					hit = true
					break
				}
			}
			if hit {
				taken[i] = true
				changed = true
				for _, v := range vs {
					rel[v] = true
				}
			}
		}
	}
	for i, c := range pc {
		if taken[i] {
			out = append(out, c)
		}
	}
	return out
}

// branch decides a boolean condition on the current path, forking when both sides are
// feasible. Must be called before the current instruction mutates the state.
func (e *Engine) branch(st *State, cond *smt.Term) bool {
	return e.branchX(st, cond, false)
}

// check is branch for runtime-check conditions that are expected to hold: the failing
// side is queried first, so a safe check costs one query.
func (e *Engine) check(st *State, cond *smt.Term) bool {
	return e.branchX(st, cond, true)
}

func (e *Engine) branchX(st *State, cond *smt.Term, likely bool) bool {
	if cond.IsConst() {
		return cond.Val == 1
	}
	if st.fpos < len(st.forced) {
		d := st.forced[st.fpos]
		st.fpos++
		st.decided = append(st.decided, d)
		return d
	}
	if likely {
		if e.feasible(st, e.C.Not(cond)) == smt.Unsat {
			st.decided = append(st.decided, true)
			e.assume(st, cond)
			e.rep.ChecksProved++
			return true
		}
	}
	rt := e.feasible(st, cond)
	if rt == smt.Unsat {
		st.decided = append(st.decided, false)
		e.assume(st, e.C.Not(cond)) // implied; keeps later queries simple
		return false
	}
	rf := e.feasible(st, e.C.Not(cond))
	if rf == smt.Unsat {
		st.decided = append(st.decided, true)
		e.assume(st, cond)
		return true
	}
	if rt == smt.Unknown || rf == smt.Unknown {
		st.uncertain = true
		e.rep.Inconclusive = appendUniq(e.rep.Inconclusive, "solver unknown on a branch in "+st.top().fn.String())
	}
	if st.dirty {
		panic("engine bug: fork after mutation in " + st.top().fn.String())
	}
	cl := st.clone(e)
	cl.pc = append(cl.pc, e.C.Not(cond))
	cl.forced = append(append([]bool(nil), st.decided...), false)
	cl.fpos = 0
	cl.decided = nil
	e.work = append(e.work, cl)
	e.assume(st, cond)
	st.decided = append(st.decided, true)
	return true
}

func appendUniq(l []string, s string) []string {
	for _, x := range l {
		if x == s {
			return l
		}
	}
	return append(l, s)
}

// choose forks over n alternatives; returns the chosen index.
func (e *Engine) choose(st *State, conds []*smt.Term) int {
	for i, c := range conds {
		if i == len(conds)-1 {
			// last alternative: must hold if others excluded; still check feasibility
			if e.branch(st, c) {
				return i
			}
			panic(pathDead{})
		}
		if e.branch(st, c) {
			return i
		}
	}
	panic(pathDead{})
}

// model gets values of the given terms under pc (+extra).
func (e *Engine) model(st *State, extra []*smt.Term, want []*smt.Term) (smt.Result, []uint64) {
	as := append(append([]*smt.Term{}, st.pc...), extra...)
	r, vals, _ := e.S.CheckWith(as, want, true)
	return r, vals
}

func (e *Engine) traceWants(tr []TraceEnt) []*smt.Term {
	var w []*smt.Term
	for _, t := range tr {
		w = append(w, t.Terms...)
	}
	return w
}

func splitVals(tr []TraceEnt, vals []uint64) [][]uint64 {
	out := make([][]uint64, len(tr))
	p := 0
	for i, t := range tr {
		out[i] = vals[p : p+len(t.Terms)]
		p += len(t.Terms)
	}
	return out
}

func (e *Engine) site(st *State) string {
	for i := len(st.frames) - 1; i >= 0; i-- {
		f := st.frames[i]
		if f.block == nil {
			continue
		}
		if f.pc < len(f.block.Instrs) {
			p := e.Prog.Fset.Position(f.block.Instrs[f.pc].Pos())
			if p.IsValid() {
				return fmt.Sprintf("%s:%d", shortFile(p.Filename), p.Line)
			}
		}
	}
	return "?"
}

func (e *Engine) siteIn(st *State) string {
	f := st.top()
	name := f.fn.String()
	for i := f.pc; i >= 0 && f.block != nil; i-- {
		if i < len(f.block.Instrs) {
			p := e.Prog.Fset.Position(f.block.Instrs[i].Pos())
			if p.IsValid() {
				return fmt.Sprintf("%s (%s:%d)", name, shortFile(p.Filename), p.Line)
			}
		}
	}
	return name
}

func shortFile(f string) string {
	f = strings.TrimPrefix(f, "/repo/")
	if i := strings.Index(f, "/pkg/mod/"); i >= 0 {
		f = f[i+9:]
	}
	return f
}

func (e *Engine) violation(st *State, kind, msg string, extra []*smt.Term) {
	v := &Violation{Harness: e.rep.Harness, Kind: kind, Msg: msg, Site: e.site(st), Notes: st.notes}
	sig := v.Signature()
	if e.sigCount == nil {
		e.sigCount = map[string]int{}
	}
	e.sigCount[sig]++
	if e.sigCount[sig] > e.Cfg.MaxViolationsPerSig {
		return
	}
	r, vals := e.model(st, extra, e.traceWants(st.trace))
	if r != smt.Sat {
		e.rep.Inconclusive = appendUniq(e.rep.Inconclusive, fmt.Sprintf("no model for possible violation %s (%v)", sig, r))
		e.sigCount[sig]--
		return
	}
	v.Trace = st.trace
	v.Vals = splitVals(st.trace, vals)
	e.rep.Violations = append(e.rep.Violations, v)
}

func (r *Report) sortedReached() []string {
	var ks []string
	for k := range r.Reached {
		ks = append(ks, k)
	}
	sort.Strings(ks)
	return ks
}

func typeKey(t types.Type) string { return types.TypeString(t, nil) }
