package sym

import (
	"fmt"
	"go/constant"
	"go/token"
	"go/types"
	"os"
	"runtime/debug"
	"strings"
	"time"

	"golang.org/x/tools/go/ssa"

	"verif/engine/smt"
)

type retryInstr struct{}
type pathEnd struct{ why string }

const (
	retNormal = iota
	retRerun
	retUnwind
)

// RunHarness explores all paths of fn (no parameters).
func (e *Engine) RunHarness(fn *ssa.Function) *Report {
	e.rep = &Report{Harness: fn.Name(), Reached: map[string]*ReachInfo{}, Funcs: map[string]int{},
		UnwoundSites: map[string]int{}, Assumes: map[string]int{}}
	e.sigCount = map[string]int{}
	root := &State{heap: map[int]Value{}, inited: map[*ssa.Package]bool{}, reached: map[string]bool{}}
	e.pushFrame(root, fn, nil, nil, nil, retNormal)
	e.work = []*State{root}
	if e.Cfg.MaxWall > 0 {
		e.deadline = time.Now().Add(e.Cfg.MaxWall)
	}
	e.lastProg = time.Now()
	for len(e.work) > 0 {
		if !e.deadline.IsZero() && time.Now().After(e.deadline) {
			e.rep.Inconclusive = appendUniq(e.rep.Inconclusive, fmt.Sprintf("time budget %s exhausted after %d paths; %d pending states dropped (reduced coverage)", e.Cfg.MaxWall, e.rep.Paths, len(e.work)))
			e.work = nil
			break
		}
		if e.Cfg.Progress && time.Since(e.lastProg) > 20*time.Second {
			e.lastProg = time.Now()
			fmt.Fprintf(e.Log, "[progress %s] paths=%d pending=%d asserts=%d/%d violations=%d\n", e.rep.Harness, e.rep.Paths, len(e.work), e.rep.AssertsProved, e.rep.AssertsChecked, len(e.rep.Violations))
		}
		st := e.work[len(e.work)-1]
		e.work = e.work[:len(e.work)-1]
		e.runPath(st)
		e.rep.Paths++
		e.rep.Steps += st.steps
		if e.rep.Paths >= e.Cfg.MaxPaths {
			e.rep.Inconclusive = appendUniq(e.rep.Inconclusive, fmt.Sprintf("path limit %d reached; %d states dropped", e.Cfg.MaxPaths, len(e.work)))
			e.work = nil
		}
	}
	e.rep.States = e.nstates + 1
	return e.rep
}

func (e *Engine) runPath(st *State) {
	defer func() {
		if r := recover(); r != nil {
			switch x := r.(type) {
			case pathDead:
			case pathEnd:
				if x.why != "" {
					e.rep.Inconclusive = appendUniq(e.rep.Inconclusive, x.why)
				}
			case unsupportedErr:
				where := "?"
				if len(st.frames) > 0 {
					where = e.siteIn(st)
				}
				if os.Getenv("GOSMT_DEBUG_PANIC") != "" {
					for i := len(st.frames) - 1; i >= 0 && i >= len(st.frames)-12; i-- {
						where += "\n   frame " + st.frames[i].fn.String()
					}
				}
				e.rep.Unsupported = appendUniq(e.rep.Unsupported, x.msg+" @ "+where)
			default:
				where := "?"
				if len(st.frames) > 0 {
					where = e.siteIn(st)
				}
				msg := fmt.Sprintf("engine panic: %v @ %s", r, where)
				if os.Getenv("GOSMT_DEBUG_PANIC") != "" {
					for i := len(st.frames) - 1; i >= 0 && i >= len(st.frames)-12; i-- {
						msg += "\n   frame " + st.frames[i].fn.String()
					}
				}
				if e.Cfg.Verbose || os.Getenv("GOSMT_DEBUG") != "" {
					msg += "\n" + string(debug.Stack())
				}
				e.rep.Unsupported = appendUniq(e.rep.Unsupported, msg)
			}
		}
	}()
	for !st.done {
		e.step(st)
		if st.steps&0x3ff == 0 && !e.deadline.IsZero() && time.Now().After(e.deadline) {
			panic(pathEnd{fmt.Sprintf("time budget %s exhausted inside a path (reduced coverage)", e.Cfg.MaxWall)})
		}
	}
}

func (e *Engine) pushFrame(st *State, fn *ssa.Function, args []Value, bind []Value, dest ssa.Value, mode int) *Frame {
	if len(fn.Blocks) == 0 {
		panic(unsupported("function without body: " + fn.String()))
	}
	if len(st.frames) > 400 {
		panic(unsupported("call depth > 400 at " + fn.String()))
	}
	f := &Frame{fn: fn, block: fn.Blocks[0], env: map[ssa.Value]Value{}, symVisits: map[int]int{}, dest: dest}
	for i, p := range fn.Params {
		if i < len(args) {
			f.env[p] = args[i]
		}
	}
	for i, fv := range fn.FreeVars {
		f.env[fv] = bind[i]
	}
	switch mode {
	case retRerun:
		f.discard = true
	case retUnwind:
		f.discard = true
		f.isDefer = true
	}
	st.frames = append(st.frames, f)
	e.rep.Funcs[fn.String()]++
	return f
}

func (e *Engine) val(st *State, f *Frame, v ssa.Value) Value {
	switch x := v.(type) {
	case *ssa.Const:
		return e.constVal(x)
	case *ssa.Global:
		return Ptr{Obj: e.globalObj(st, x)}
	case *ssa.Function:
		return FuncV{Fn: x}
	case *ssa.Builtin:
		return FuncV{Blt: x}
	}
	r, ok := f.env[v]
	if !ok {
		panic(fmt.Sprintf("engine bug: no value for %s (%T) in %s", v.Name(), v, f.fn))
	}
	return r
}

func (e *Engine) constVal(c *ssa.Const) Value {
	t := c.Type()
	if c.Value == nil {
		return e.Zero(t)
	}
	switch u := t.Underlying().(type) {
	case *types.Basic:
		switch {
		case u.Info()&types.IsBoolean != 0:
			return e.C.Bool(constant.BoolVal(c.Value))
		case u.Info()&types.IsInteger != 0:
			w, _, _ := basicWidth(u)
			if i, ok := constant.Int64Val(constant.ToInt(c.Value)); ok {
				return e.C.Const(uint64(i), w)
			}
			ui, _ := constant.Uint64Val(constant.ToInt(c.Value))
			return e.C.Const(ui, w)
		case u.Info()&types.IsString != 0:
			return StrV{Conc: true, S: constant.StringVal(c.Value)}
		case u.Info()&types.IsFloat != 0:
			fl, _ := constant.Float64Val(c.Value)
			return FloatV(fl)
		}
	}
	panic(unsupported("constant of type " + t.String()))
}

var denyInit = []string{"runtime", "os", "syscall", "sync", "reflect", "internal/", "unicode", "net", "crypto",
	"testing", "log", "fmt", "encoding/json", "regexp", "math/rand", "context", "unique", "iter", "path/filepath",
	"golang.org/x/sys", "github.com/json-iterator", "github.com/modern-go", "github.com/spf13", "github.com/gin-gonic",
	"github.com/danielgtaylor", "go.opentelemetry.io", "github.com/prometheus", "google.golang.org", "html", "text/", "mime",
	"compress/", "bufio", "hash", "vendor/", "go/", "embed", "flag", "io/fs", "io/ioutil", "os/", "plugin", "database",
	"github.com/klauspost", "github.com/pierrec", "github.com/zeebo", "github.com/stretchr", "gopkg.in", "github.com/fsnotify",
	"github.com/fako1024/slimcap", "github.com/fako1024/httpc", "github.com/els0r/telemetry", "log/slog", "slices", "maps", "cmp", "weak", "structs"}

func (e *Engine) initAllowed(p *ssa.Package) bool {
	path := p.Pkg.Path()
	if path == "net/netip" {
		return true // z4 / z6noz handles are needed for address validity and family
	}
	for _, d := range append(denyInit, e.Cfg.NoInit...) {
		if path == d || strings.HasPrefix(path, d) && (strings.HasSuffix(d, "/") || strings.HasPrefix(path, d+"/") || strings.HasPrefix(path, d)) {
			return false
		}
	}
	for _, d := range e.Cfg.BlackHole {
		if strings.HasPrefix(path, d) {
			return false
		}
	}
	return true
}

func (e *Engine) globalObj(st *State, g *ssa.Global) int {
	id, ok := e.globalID[g]
	if !ok {
		id = e.newObj()
		e.globalID[g] = id
	}
	if _, ok := st.heap[id]; !ok {
		elemT := g.Type().(*types.Pointer).Elem()
		z := e.Zero(elemT)
		if g.Pkg != nil && !e.initAllowed(g.Pkg) {
			// opaque global of a package whose init is not executed
			if types.Identical(elemT, types.Universe.Lookup("error").Type()) {
				z = e.mkError(st, g.Pkg.Pkg.Path()+"."+g.Name())
			}
		}
		st.heap[id] = z
	}
	if g.Pkg != nil && !st.inited[g.Pkg] {
		st.inited[g.Pkg] = true
		if e.initAllowed(g.Pkg) {
			if init := g.Pkg.Func("init"); init != nil && len(init.Blocks) > 0 {
				fr := e.pushFrame(st, init, nil, nil, nil, retRerun)
				fr.initPkg = g.Pkg
				panic(retryInstr{})
			}
		}
	}
	return id
}

// mkError allocates an *errors.errorString-like opaque error value.
func (e *Engine) mkError(st *State, msg string) Value {
	var et types.Type
	if p := e.Prog.ImportedPackage("errors"); p != nil {
		if t := p.Type("errorString"); t != nil {
			et = types.NewPointer(t.Type())
		}
	}
	id := e.newObj()
	st.heap[id] = StructV{F: []Value{StrV{Conc: true, S: msg}}}
	if et == nil {
		et = types.Typ[types.String]
	}
	return IfaceV{T: et, V: Ptr{Obj: id}}
}

func (e *Engine) setEnv(st *State, f *Frame, k ssa.Value, v Value) {
	st.dirty = true
	f.env[k] = v
}

func (e *Engine) step(st *State) {
	st.steps++
	if st.steps > e.Cfg.MaxSteps {
		st.done = true
		e.rep.Inconclusive = appendUniq(e.rep.Inconclusive, "step limit reached in "+st.top().fn.String())
		return
	}
	if len(st.frames) == 0 {
		st.done = true
		return
	}
	f := st.top()
	st.decided = st.decided[:0]
	st.dirty = false
	if st.fpos >= len(st.forced) {
		st.forced = nil
		st.fpos = 0
		st.memo = nil
	}
	defer func() {
		if r := recover(); r != nil {
			if _, ok := r.(retryInstr); ok {
				return
			}
			panic(r)
		}
	}()
	instr := f.block.Instrs[f.pc]
	if e.Cfg.Verbose {
		fmt.Fprintf(e.Log, "[s%d d%d] %s: %s\n", st.id, len(st.frames), f.fn.Name(), instr)
	}
	e.exec(st, f, instr)
}

func (e *Engine) jump(st *State, f *Frame, to *ssa.BasicBlock) {
	from := f.block
	// evaluate phis simultaneously
	var idx = -1
	for i, p := range to.Preds {
		if p == from {
			idx = i
			break
		}
	}
	var phis []*ssa.Phi
	var vals []Value
	for _, in := range to.Instrs {
		phi, ok := in.(*ssa.Phi)
		if !ok {
			break
		}
		phis = append(phis, phi)
		vals = append(vals, e.val(st, f, phi.Edges[idx]))
	}
	st.dirty = true
	for i, phi := range phis {
		f.env[phi] = vals[i]
	}
	f.prev = from
	f.block = to
	f.pc = len(phis)
}

func (e *Engine) exec(st *State, f *Frame, instr ssa.Instruction) {
	c := e.C
	switch in := instr.(type) {
	case *ssa.DebugRef:
		f.pc++
	case *ssa.Alloc:
		id := e.newObj()
		st.dirty = true
		st.heap[id] = e.Zero(in.Type().(*types.Pointer).Elem())
		f.env[in] = Ptr{Obj: id}
		f.pc++
	case *ssa.BinOp:
		x, y := e.val(st, f, in.X), e.val(st, f, in.Y)
		r := e.binop(st, in.Op, x, y, in.X.Type(), in.Y.Type())
		e.setEnv(st, f, in, r)
		f.pc++
	case *ssa.UnOp:
		x := e.val(st, f, in.X)
		var r Value
		switch in.Op {
		case token.MUL:
			if xp := x.(Ptr); xp.IsNil() && e.opaqueType(in.Type()) {
				r = e.Zero(in.Type()) // field of an opaque (black-holed) nil object
			} else {
				r = e.load(st, xp, in.Type())
			}
		case token.NOT:
			r = c.Not(x.(*smt.Term))
		case token.SUB:
			if fl, ok := x.(FloatV); ok {
				r = FloatV(-fl)
			} else {
				r = c.Neg(x.(*smt.Term))
			}
		case token.XOR:
			r = c.BNot(x.(*smt.Term))
		case token.ARROW:
			r = e.chanRecv(st, x.(ChanRef), in.CommaOk, in.Type())
		default:
			panic(unsupported("unop " + in.Op.String()))
		}
		e.setEnv(st, f, in, r)
		f.pc++
	case *ssa.Store:
		p := e.val(st, f, in.Addr).(Ptr)
		v := e.val(st, f, in.Val)
		e.store(st, p, v, in.Val.Type())
		f.pc++
	case *ssa.FieldAddr:
		p := e.val(st, f, in.X).(Ptr)
		if p.IsNil() {
			if pt, ok := in.X.Type().Underlying().(*types.Pointer); ok && e.isBlackHoleType(pt.Elem()) {
				// opaque object of a black-holed package (logger, tracer): its fields stay opaque
				e.setEnv(st, f, in, Ptr{})
				f.pc++
				return
			}
			e.runtimePanic(st, "nil pointer dereference")
			return
		}
		if p.Idx != nil {
			panic(unsupported("field of pointer into byte array"))
		}
		e.setEnv(st, f, in, Ptr{Obj: p.Obj, Path: pathAppend(p.Path, in.Field)})
		f.pc++
	case *ssa.Field:
		x := e.val(st, f, in.X).(StructV)
		e.setEnv(st, f, in, x.F[in.Field])
		f.pc++
	case *ssa.IndexAddr:
		r, ok := e.indexAddr(st, e.val(st, f, in.X), e.val(st, f, in.Index).(*smt.Term), in.X.Type(), in.Index.Type())
		if !ok {
			return
		}
		e.setEnv(st, f, in, r)
		f.pc++
	case *ssa.Index:
		r, ok := e.indexVal(st, e.val(st, f, in.X), e.val(st, f, in.Index).(*smt.Term), in.X.Type(), in.Index.Type())
		if !ok {
			return
		}
		e.setEnv(st, f, in, r)
		f.pc++
	case *ssa.Slice:
		r, ok := e.sliceOp(st, f, in)
		if !ok {
			return
		}
		e.setEnv(st, f, in, r)
		f.pc++
	case *ssa.Phi:
		panic("engine bug: phi executed directly")
	case *ssa.Jump:
		e.jump(st, f, f.block.Succs[0])
	case *ssa.If:
		cond := e.val(st, f, in.Cond).(*smt.Term)
		if !cond.IsConst() {
			f.symVisits[f.block.Index]++
			if f.symVisits[f.block.Index] > e.Cfg.LoopBound {
				e.rep.Unwound++
				e.rep.UnwoundSites[e.siteIn(st)]++
				st.done = true
				return
			}
		}
		if e.branch(st, cond) {
			e.jump(st, f, f.block.Succs[0])
		} else {
			e.jump(st, f, f.block.Succs[1])
		}
	case *ssa.Return:
		var res Value
		switch len(in.Results) {
		case 0:
		case 1:
			res = e.val(st, f, in.Results[0])
		default:
			tv := make(TupleV, len(in.Results))
			for i, r := range in.Results {
				tv[i] = e.val(st, f, r)
			}
			res = tv
		}
		e.doReturn(st, res)
	case *ssa.Call:
		e.doCall(st, f, in, &in.Call, in)
	case *ssa.Defer:
		fnv, args := e.prepCall(st, f, &in.Call)
		if fnv == nil {
			return
		}
		st.dirty = true
		f.defers = append(f.defers, deferred{fn: fnv, args: args, call: &in.Call})
		f.pc++
	case *ssa.Go:
		if e.Cfg.InlineGo {
			e.doCall(st, f, in, &in.Call, nil)
			return
		}
		panic(unsupported("go statement"))
	case *ssa.RunDefers:
		if len(f.defers) == 0 {
			f.pc++
			return
		}
		d := f.defers[len(f.defers)-1]
		st.dirty = true
		f.defers = f.defers[:len(f.defers)-1]
		e.invokeValue(st, d.fn, d.args, nil, retRerun, d.call)
	case *ssa.Panic:
		v := e.val(st, f, in.X)
		e.doPanic(st, &PanicInfo{Val: v, Msg: e.panicMsg(st, v), Site: e.site(st)})
	case *ssa.Extract:
		t := e.val(st, f, in.Tuple).(TupleV)
		e.setEnv(st, f, in, t[in.Index])
		f.pc++
	case *ssa.MakeInterface:
		e.setEnv(st, f, in, IfaceV{T: in.X.Type(), V: e.val(st, f, in.X)})
		f.pc++
	case *ssa.ChangeInterface:
		e.setEnv(st, f, in, e.val(st, f, in.X))
		f.pc++
	case *ssa.ChangeType:
		e.setEnv(st, f, in, e.val(st, f, in.X))
		f.pc++
	case *ssa.Convert:
		e.setEnv(st, f, in, e.convert(st, e.val(st, f, in.X), in.X.Type(), in.Type()))
		f.pc++
	case *ssa.TypeAssert:
		r, ok := e.typeAssert(st, in, e.val(st, f, in.X).(IfaceV))
		if !ok {
			return
		}
		e.setEnv(st, f, in, r)
		f.pc++
	case *ssa.MakeClosure:
		b := make([]Value, len(in.Bindings))
		for i, x := range in.Bindings {
			b[i] = e.val(st, f, x)
		}
		e.setEnv(st, f, in, FuncV{Fn: in.Fn.(*ssa.Function), Bind: b})
		f.pc++
	case *ssa.MakeSlice:
		r, ok := e.makeSlice(st, in.Type(), e.val(st, f, in.Len).(*smt.Term), e.val(st, f, in.Cap).(*smt.Term))
		if !ok {
			return
		}
		e.setEnv(st, f, in, r)
		f.pc++
	case *ssa.MakeMap:
		id := e.newObj()
		st.dirty = true
		st.heap[id] = MapV{}
		f.env[in] = MapRef{Obj: id}
		f.pc++
	case *ssa.MakeChan:
		sz := e.val(st, f, in.Size).(*smt.Term)
		if !sz.IsConst() {
			panic(unsupported("symbolic channel capacity"))
		}
		id := e.newObj()
		st.dirty = true
		st.heap[id] = ChanV{Cap: int(sz.Val)}
		f.env[in] = ChanRef{Obj: id}
		f.pc++
	case *ssa.MapUpdate:
		m := e.val(st, f, in.Map).(MapRef)
		k, v := e.val(st, f, in.Key), e.val(st, f, in.Value)
		if m.Obj == 0 {
			e.runtimePanic(st, "assignment to entry in nil map")
			return
		}
		e.mapUpdate(st, m, k, v, in.Key.Type())
		f.pc++
	case *ssa.Lookup:
		x := e.val(st, f, in.X)
		if s, ok := x.(StrV); ok {
			r, ok := e.strIndex(st, s, e.val(st, f, in.Index).(*smt.Term))
			if !ok {
				return
			}
			e.setEnv(st, f, in, r)
			f.pc++
			return
		}
		m := x.(MapRef)
		v, found := e.mapLookup(st, m, e.val(st, f, in.Index), in.Index.Type())
		var r Value
		vt := in.X.Type().Underlying().(*types.Map).Elem()
		if !found {
			v = e.Zero(vt)
		}
		if in.CommaOk {
			r = TupleV{v, c.Bool(found)}
		} else {
			r = v
		}
		e.setEnv(st, f, in, r)
		f.pc++
	case *ssa.Range:
		x := e.val(st, f, in.X)
		it := &RangeIter{}
		switch xv := x.(type) {
		case MapRef:
			if xv.Obj != 0 {
				m := st.heap[xv.Obj].(MapV)
				for i := range m.Keys {
					if !m.Deleted[i] {
						it.Keys = append(it.Keys, m.Keys[i])
						it.Vals = append(it.Vals, m.Vals[i])
					}
				}
				e.permuteRange(st, f, it)
			}
		case StrV:
			if !xv.Conc {
				panic(unsupported("range over symbolic string"))
			}
			it.Str = true
			for i, r := range xv.S {
				it.Keys = append(it.Keys, c.Const(uint64(i), 64))
				it.Vals = append(it.Vals, c.Const(uint64(r), 32))
			}
		default:
			panic(unsupported(fmt.Sprintf("range over %T", x)))
		}
		id := e.newObj()
		st.dirty = true
		st.heap[id] = NativeV{Tag: "rangeiter", V: it}
		f.env[in] = Ptr{Obj: id}
		f.pc++
	case *ssa.Next:
		p := e.val(st, f, in.Iter).(Ptr)
		it := st.heap[p.Obj].(NativeV).V.(*RangeIter)
		tt := in.Type().(*types.Tuple)
		var r TupleV
		if it.Pos < len(it.Keys) {
			r = TupleV{c.True(), it.Keys[it.Pos], it.Vals[it.Pos]}
			nit := *it
			nit.Pos++
			st.dirty = true
			st.heap[p.Obj] = NativeV{Tag: "rangeiter", V: &nit}
		} else {
			r = TupleV{c.False(), e.zeroOrNil(tt.At(1).Type()), e.zeroOrNil(tt.At(2).Type())}
		}
		e.setEnv(st, f, in, r)
		f.pc++
	case *ssa.Send:
		ch := e.val(st, f, in.Chan).(ChanRef)
		e.chanSend(st, ch, e.val(st, f, in.X))
		f.pc++
	case *ssa.Select:
		e.selectOp(st, f, in)
	case *ssa.SliceToArrayPointer:
		s := e.val(st, f, in.X).(SliceV)
		n := in.Type().(*types.Pointer).Elem().Underlying().(*types.Array).Len()
		if !e.check(st, c.Sge(s.Len, c.Const(uint64(n), 64))) {
			e.runtimePanic(st, "cannot convert slice to array pointer: length too short")
			return
		}
		idx := s.Off
		if s.Base.Idx != nil {
			idx = c.Add(s.Base.Idx, s.Off)
		}
		e.setEnv(st, f, in, Ptr{Obj: s.Base.Obj, Path: s.Base.Path, Idx: idx})
		f.pc++
	default:
		panic(unsupported(fmt.Sprintf("instruction %T", instr)))
	}
}

func (e *Engine) zeroOrNil(t types.Type) Value {
	if t == nil {
		return nil
	}
	if b, ok := t.(*types.Basic); ok && b.Kind() == types.Invalid {
		return nil
	}
	return e.Zero(t)
}

func (e *Engine) panicMsg(st *State, v Value) string {
	if iv, ok := v.(IfaceV); ok {
		switch x := iv.V.(type) {
		case StrV:
			if x.Conc {
				return x.S
			}
			return "<symbolic string>"
		case Ptr:
			if o, ok := st.heap[x.Obj].(StructV); ok && len(o.F) > 0 {
				if s, ok := o.F[0].(StrV); ok && s.Conc {
					return s.S
				}
			}
		}
		if iv.T != nil {
			return "panic value of type " + iv.T.String()
		}
	}
	return "panic"
}

func (e *Engine) runtimePanic(st *State, msg string) {
	site := e.site(st)
	if os.Getenv("GOSMT_DEBUG_PANIC") != "" && st.mayPanic == 0 {
		fmt.Fprintf(os.Stderr, "RUNTIME PANIC %s at %s\n", msg, site)
		for i := len(st.frames) - 1; i >= 0 && i >= len(st.frames)-6; i-- {
			f := st.frames[i]
			ins := ""
			if f.block != nil && f.pc < len(f.block.Instrs) {
				ins = f.block.Instrs[f.pc].String()
			}
			fmt.Fprintf(os.Stderr, "   frame %s: %s\n", f.fn.String(), ins)
		}
	}
	e.doPanic(st, &PanicInfo{Val: IfaceV{T: types.Typ[types.String], V: StrV{Conc: true, S: "runtime error: " + msg}},
		Msg: "runtime error: " + msg, Site: site, Runtime: true})
}

func (e *Engine) doPanic(st *State, info *PanicInfo) {
	st.dirty = true
	st.panic_ = info
	st.recovered = false
	st.top().unwinding = true
	e.unwind(st)
}

func (e *Engine) unwind(st *State) {
	for {
		if len(st.frames) == 0 {
			e.endPanicked(st)
			return
		}
		f := st.top()
		if len(f.defers) > 0 {
			d := f.defers[len(f.defers)-1]
			f.defers = f.defers[:len(f.defers)-1]
			e.invokeValue(st, d.fn, d.args, nil, retUnwind, d.call)
			return
		}
		if st.panic_ == nil {
			// recovered: function returns normally through its recover block
			f.unwinding = false
			if f.fn.Recover != nil {
				f.prev = f.block
				f.block = f.fn.Recover
				f.pc = 0
				return
			}
			var res Value
			rs := f.fn.Signature.Results()
			switch rs.Len() {
			case 0:
			case 1:
				res = e.Zero(rs.At(0).Type())
			default:
				res = e.Zero(rs)
			}
			e.doReturn(st, res)
			return
		}
		st.frames = st.frames[:len(st.frames)-1]
		if len(st.frames) > 0 {
			st.top().unwinding = true
		}
	}
}

func (e *Engine) endPanicked(st *State) {
	st.done = true
	info := st.panic_
	if st.mayPanic > 0 {
		return
	}
	st.frames = nil
	e.violationAt(st, "panic", info.Msg, info.Site)
}

func (e *Engine) violationAt(st *State, kind, msg, site string, extra ...*smt.Term) {
	v := &Violation{Harness: e.rep.Harness, Kind: kind, Msg: msg, Site: site, Notes: st.notes}
	sig := v.Signature() + "@" + site
	e.sigCount[sig]++
	if e.sigCount[sig] > e.Cfg.MaxViolationsPerSig {
		return
	}
	r, vals := e.model(st, extra, e.traceWants(st.trace))
	if r != smt.Sat {
		e.rep.Inconclusive = appendUniq(e.rep.Inconclusive, fmt.Sprintf("no model for possible violation %s (%v)", sig, r))
		e.sigCount[sig]--
		return
	}
	v.Trace = st.trace
	v.Vals = splitVals(st.trace, vals)
	e.rep.Violations = append(e.rep.Violations, v)
}

func (e *Engine) doReturn(st *State, res Value) {
	st.dirty = true
	f := st.top()
	if len(f.defers) > 0 && !f.unwinding {
		// SSA always emits RunDefers before Return when defers exist; reaching here is fine
	}
	st.frames = st.frames[:len(st.frames)-1]
	if f.onRet != nil {
		f.onRet(st, res)
		return
	}
	if len(st.frames) == 0 {
		st.done = true
		return
	}
	caller := st.top()
	if caller.unwinding {
		e.unwind(st)
		return
	}
	if f.discard {
		return // caller re-executes its current instruction (RunDefers / init retry)
	}
	if f.dest != nil {
		caller.env[f.dest] = res
	}
	caller.pc++
}

// prepCall evaluates callee and arguments. Returns nil fn if a panic was raised.
func (e *Engine) prepCall(st *State, f *Frame, cc *ssa.CallCommon) (Value, []Value) {
	args := make([]Value, 0, len(cc.Args)+1)
	var fnv Value
	if cc.IsInvoke() {
		recv := e.val(st, f, cc.Value).(IfaceV)
		if recv.T == nil {
			if e.isBlackHoleType(cc.Value.Type()) {
				return FuncV{Native: "blackhole:" + cc.Method.Name()}, nil
			}
			e.runtimePanic(st, "nil pointer dereference (method call on nil interface "+cc.Method.Name()+")")
			return nil, nil
		}
		if nv, ok := recv.V.(NativeV); ok {
			fnv = FuncV{Native: "native:" + nv.Tag + "." + cc.Method.Name()}
			args = append(args, recv.V)
		} else {
			m := e.lookupMethod(recv.T, cc.Method)
			if m == nil {
				panic(unsupported("no method " + cc.Method.Name() + " on " + recv.T.String()))
			}
			fnv = FuncV{Fn: m}
			args = append(args, recv.V)
		}
	} else {
		fnv = e.val(st, f, cc.Value)
	}
	for _, a := range cc.Args {
		args = append(args, e.val(st, f, a))
	}
	return fnv, args
}

func (e *Engine) isBlackHoleType(t types.Type) bool {
	if n, ok := t.(*types.Named); ok && n.Obj().Pkg() != nil {
		return e.isBlackHolePkg(n.Obj().Pkg().Path())
	}
	return false
}

// opaqueType: a named type (or pointer to one) of a black-holed package.
func (e *Engine) opaqueType(t types.Type) bool {
	if p, ok := t.(*types.Pointer); ok {
		t = p.Elem()
	}
	return e.isBlackHoleType(t)
}

func (e *Engine) isBlackHolePkg(path string) bool {
	for _, d := range e.Cfg.BlackHole {
		if strings.HasPrefix(path, d) {
			return true
		}
	}
	return false
}

func (e *Engine) lookupMethod(t types.Type, m *types.Func) *ssa.Function {
	key := typeKey(t) + "#" + m.Id()
	if fn, ok := e.methodCache[key]; ok {
		return fn
	}
	ms := e.Prog.MethodSets.MethodSet(t)
	sel := ms.Lookup(m.Pkg(), m.Name())
	var fn *ssa.Function
	if sel != nil {
		fn = e.Prog.MethodValue(sel)
	}
	e.methodCache[key] = fn
	return fn
}

func (e *Engine) doCall(st *State, f *Frame, instr ssa.Instruction, cc *ssa.CallCommon, dest ssa.Value) {
	fnv, args := e.prepCall(st, f, cc)
	if fnv == nil {
		return
	}
	e.invokeValue(st, fnv, args, dest, retNormal, cc)
}

// invokeValue calls a function value. For natives/builtins the result is stored and pc advanced
// according to mode; for SSA functions a frame is pushed.
func (e *Engine) invokeValue(st *State, fnv Value, args []Value, dest ssa.Value, mode int, cc *ssa.CallCommon) {
	fv := fnv.(FuncV)
	finish := func(res Value) {
		// immediate result (native or builtin)
		st.dirty = true
		caller := st.top()
		switch mode {
		case retNormal:
			if dest != nil {
				caller.env[dest] = res
			}
			caller.pc++
		case retRerun:
		case retUnwind:
			e.unwind(st)
		}
	}
	if fv.Blt != nil {
		res, ok := e.builtin(st, fv.Blt, args, cc)
		if !ok {
			return
		}
		finish(res)
		return
	}
	if fv.Native != "" {
		if strings.HasPrefix(fv.Native, "blackhole:") {
			var rt types.Type
			if cc != nil {
				rt = cc.Signature().Results()
			}
			finish(e.zeroResults(rt))
			return
		}
		nf, ok := e.natives[fv.Native]
		if !ok {
			panic(unsupported("native method " + fv.Native))
		}
		res, done := nf(e, st, &CallCtx{Args: args, CC: cc, Mode: mode, Dest: dest})
		if !done {
			return
		}
		finish(res)
		return
	}
	if fv.Fn == nil {
		e.runtimePanic(st, "nil pointer dereference (call of nil func)")
		return
	}
	fn := fv.Fn
	name := fn.String()
	if nf, ok := e.natives[name]; ok {
		res, done := nf(e, st, &CallCtx{Args: args, Fn: fn, CC: cc, Mode: mode, Dest: dest, Bind: fv.Bind})
		if !done {
			return
		}
		finish(res)
		return
	}
	if o := fn.Origin(); o != nil {
		if nf, ok := e.natives[o.String()]; ok {
			res, done := nf(e, st, &CallCtx{Args: args, Fn: fn, CC: cc, Mode: mode, Dest: dest, Bind: fv.Bind})
			if !done {
				return
			}
			finish(res)
			return
		}
	}
	if fn.Pkg != nil || fn.Object() != nil {
		pp := ""
		if fn.Pkg != nil {
			pp = fn.Pkg.Pkg.Path()
		} else if fn.Object().Pkg() != nil {
			pp = fn.Object().Pkg().Path()
		}
		if pp != "" && e.isBlackHolePkg(pp) {
			finish(e.zeroResults(fn.Signature.Results()))
			return
		}
		// package initializers of other packages are run lazily
		if fn.Synthetic == "package initializer" {
			finish(nil)
			return
		}
	}
	if len(fn.Blocks) == 0 {
		panic(unsupported("function without body: " + name))
	}
	if e.Cfg.Summarise[name] {
		// side-effect-free scalar function named in the check configuration: all its paths merged into one term
		sym := false
		for _, a := range args {
			if t, ok := a.(*smt.Term); ok && !t.IsConst() {
				sym = true
			}
		}
		if sym {
			if len(args) == 1 {
				if t := args[0].(*smt.Term); t.S.W > 0 && t.S.W <= 8 {
					finish(e.tabulated(st, fv, t))
					return
				}
			}
			finish(e.summarise(st, fv, args))
			return
		}
	}
	e.pushFrame(st, fn, args, fv.Bind, dest, mode)
}

func (e *Engine) zeroResults(rt types.Type) Value {
	if rt == nil {
		return nil
	}
	if t, ok := rt.(*types.Tuple); ok {
		switch t.Len() {
		case 0:
			return nil
		case 1:
			return e.Zero(t.At(0).Type())
		}
	}
	return e.Zero(rt)
}

type CallCtx struct {
	Args []Value
	Bind []Value
	Fn   *ssa.Function
	CC   *ssa.CallCommon
	Mode int
	Dest ssa.Value
}

type NativeFn func(e *Engine, st *State, c *CallCtx) (Value, bool)

// permuteRange makes the iteration order of a map range a symbolic choice (Go leaves it unspecified)
// in the functions named by Config.MapOrder: every permutation of up to four live entries is one path.
// Elsewhere maps are ranged in insertion order.
func (e *Engine) permuteRange(st *State, f *Frame, it *RangeIter) {
	n := len(it.Keys)
	if n < 2 || !e.Cfg.MapOrder[f.fn.String()] {
		return
	}
	if n > 4 {
		panic(unsupported("map order permutation over more than 4 entries"))
	}
	var x *smt.Term
	if m, ok := st.memo["maporder"]; ok {
		x = m.(*smt.Term)
	} else {
		x = e.C.Var("maporder", smt.BV(8))
		if st.memo == nil {
			st.memo = map[string]interface{}{}
		}
		st.memo["maporder"] = x
	}
	perms := permutations(n)
	pick := perms[len(perms)-1]
	for k := 0; k < len(perms)-1; k++ {
		if e.branch(st, e.C.Eq(x, e.C.Const(uint64(k), 8))) {
			pick = perms[k]
			break
		}
	}
	keys, vals := make([]Value, n), make([]Value, n)
	for i, j := range pick {
		keys[i], vals[i] = it.Keys[j], it.Vals[j]
	}
	it.Keys, it.Vals = keys, vals
}

func permutations(n int) [][]int {
	if n == 0 {
		return [][]int{{}}
	}
	var out [][]int
	for _, p := range permutations(n - 1) {
		for pos := n - 1; pos >= 0; pos-- {
			q := append(append(append([]int{}, p[:pos]...), n-1), p[pos:]...)
			out = append(out, q)
		}
	}
	return out
}

// tabulated is the summary of a pure function of one byte-sized argument: the function is run once on
// each of the 2^w concrete argument values (cached for the run) and the call becomes one ite term.
func (e *Engine) tabulated(st *State, fv FuncV, arg *smt.Term) *smt.Term {
	c := e.C
	name := fv.Fn.String()
	tab, ok := e.tables[name]
	if !ok {
		n := 1 << uint(arg.S.W)
		tab = make([]*smt.Term, n)
		for k := 0; k < n; k++ {
			r := e.summarise(st, fv, []Value{c.Const(uint64(k), arg.S.W)})
			if !r.IsConst() {
				panic(unsupported("tabulated: " + name + " is not a function of its argument alone"))
			}
			tab[k] = r
		}
		if e.tables == nil {
			e.tables = map[string][]*smt.Term{}
		}
		e.tables[name] = tab
	}
	// most frequent result is the default
	count := map[uint64]int{}
	for _, r := range tab {
		count[r.Val]++
	}
	def := tab[0]
	for _, r := range tab {
		if count[r.Val] > count[def.Val] {
			def = r
		}
	}
	res := def
	for k := len(tab) - 1; k >= 0; k-- {
		if tab[k].Val != def.Val {
			res = c.Ite(c.Eq(arg, c.Const(uint64(k), arg.S.W)), tab[k], res)
		}
	}
	return res
}
