// Package rewrite generates source overlays from the current /repo files: qualified
// identifiers are redirected to model packages and selected function bodies are replaced.
// The same overlay is used by the symbolic engine and by the native replay.
package rewrite

import (
	"bytes"
	"fmt"
	"go/ast"
	"go/format"
	"go/parser"
	"go/token"
	"os"
	"path/filepath"
	"sort"
	"strconv"
	"strings"
)

type TextRepl struct {
	From string `json:"from"`
	To   string `json:"to"`
	All  bool   `json:"all"`
}

type Rule struct {
	File        string            `json:"file"`
	Selectors   map[string]string `json:"selectors"`    // "os.OpenFile" -> "vfs.OpenFile"
	Imports     map[string]string `json:"imports"`      // alias -> import path (added)
	ReplaceBody map[string]string `json:"replace_body"` // "Recv.Method" or "Func" -> body statements
	Text        []TextRepl        `json:"text"`
	DropImports []string          `json:"drop_imports"`
	// OptionalSelectors: a selector that does not occur in the file is not an error (redirections of a
	// whole API family, e.g. every os.* file-system call, where the code may use only some of them)
	OptionalSelectors bool `json:"optional_selectors"`
}

// Apply returns overlay contents keyed by absolute path and a description per rule.
func Apply(repo string, rules []Rule) (map[string][]byte, []string, error) {
	out := map[string][]byte{}
	var names []string
	for _, r := range rules {
		abs := filepath.Join(repo, r.File)
		src, ok := out[abs]
		if !ok {
			b, err := os.ReadFile(abs)
			if err != nil {
				return nil, nil, err
			}
			src = b
		}
		for _, t := range r.Text {
			n := bytes.Count(src, []byte(t.From))
			if n == 0 || (n != 1 && !t.All) {
				return nil, nil, fmt.Errorf("%s: text %q occurs %d times", r.File, t.From, n)
			}
			src = bytes.ReplaceAll(src, []byte(t.From), []byte(t.To))
		}
		fset := token.NewFileSet()
		f, err := parser.ParseFile(fset, abs, src, parser.ParseComments)
		if err != nil {
			return nil, nil, err
		}
		used := map[string]int{}
		if len(r.Selectors) > 0 {
			ast.Inspect(f, func(n ast.Node) bool {
				se, ok := n.(*ast.SelectorExpr)
				if !ok {
					return true
				}
				id, ok := se.X.(*ast.Ident)
				if !ok || id.Obj != nil {
					return true
				}
				key := id.Name + "." + se.Sel.Name
				if to, ok := r.Selectors[key]; ok {
					parts := strings.SplitN(to, ".", 2)
					id.Name = parts[0]
					se.Sel.Name = parts[1]
					used[key]++
				}
				return true
			})
			var keys []string
			for k := range r.Selectors {
				keys = append(keys, k)
			}
			sort.Strings(keys)
			for _, k := range keys {
				if used[k] == 0 && !r.OptionalSelectors {
					return nil, nil, fmt.Errorf("%s: selector %s not found", r.File, k)
				}
			}
		}
		for name, body := range r.ReplaceBody {
			found := false
			for _, d := range f.Decls {
				fd, ok := d.(*ast.FuncDecl)
				if !ok || fd.Body == nil {
					continue
				}
				full := fd.Name.Name
				if fd.Recv != nil && len(fd.Recv.List) == 1 {
					t := fd.Recv.List[0].Type
					if st, ok := t.(*ast.StarExpr); ok {
						t = st.X
					}
					if ix, ok := t.(*ast.IndexExpr); ok {
						t = ix.X
					}
					if id, ok := t.(*ast.Ident); ok {
						full = id.Name + "." + fd.Name.Name
					}
				}
				if full != name {
					continue
				}
				found = true
				wrapped := "package p\nfunc _() {\n" + body + "\n}"
				bf, err := parser.ParseFile(token.NewFileSet(), "", wrapped, 0)
				if err != nil {
					return nil, nil, fmt.Errorf("%s: body of %s: %v", r.File, name, err)
				}
				nb := bf.Decls[0].(*ast.FuncDecl).Body
				clearPos(nb)
				fd.Body = nb
			}
			if !found {
				return nil, nil, fmt.Errorf("%s: function %s not found", r.File, name)
			}
		}
		for alias, path := range r.Imports {
			addImport(f, alias, path)
		}
		for _, p := range r.DropImports {
			dropImport(f, p)
		}
		cands := map[string]bool{}
		for k := range r.Selectors {
			cands[strings.SplitN(k, ".", 2)[0]] = true
		}
		dropUnused(f, cands, len(r.ReplaceBody) > 0)
		// comments are dropped to avoid misplacement after body replacement (directives such as
		// go:linkname must survive, so files without a body replacement keep all comments)
		if len(r.ReplaceBody) > 0 {
			f.Comments = keepBuildTags(f)
		}
		var buf bytes.Buffer
		if err := format.Node(&buf, fset, f); err != nil {
			return nil, nil, err
		}
		out[abs] = buf.Bytes()
		names = append(names, fmt.Sprintf("%s: %d selector redirections, %d bodies replaced, %d text edits", r.File, len(r.Selectors), len(r.ReplaceBody), len(r.Text)))
	}
	return out, names, nil
}

func keepBuildTags(f *ast.File) []*ast.CommentGroup {
	var keep []*ast.CommentGroup
	for _, cg := range f.Comments {
		if cg.End() < f.Package {
			keep = append(keep, cg)
		}
	}
	return keep
}

func clearPos(n ast.Node) {
	ast.Inspect(n, func(x ast.Node) bool {
		switch v := x.(type) {
		case *ast.BlockStmt:
			v.Lbrace, v.Rbrace = token.NoPos, token.NoPos
		case *ast.Ident:
			v.NamePos = token.NoPos
		case *ast.BasicLit:
			v.ValuePos = token.NoPos
		case *ast.CallExpr:
			v.Lparen, v.Rparen = token.NoPos, token.NoPos
		case *ast.ReturnStmt:
			v.Return = token.NoPos
		case *ast.IfStmt:
			v.If = token.NoPos
		case *ast.AssignStmt:
			v.TokPos = token.NoPos
		case *ast.CompositeLit:
			v.Lbrace, v.Rbrace = token.NoPos, token.NoPos
		case *ast.UnaryExpr:
			v.OpPos = token.NoPos
		case *ast.BinaryExpr:
			v.OpPos = token.NoPos
		case *ast.StarExpr:
			v.Star = token.NoPos
		case *ast.ForStmt:
			v.For = token.NoPos
		case *ast.RangeStmt:
			v.For, v.TokPos = token.NoPos, token.NoPos
		case *ast.IndexExpr:
			v.Lbrack, v.Rbrack = token.NoPos, token.NoPos
		case *ast.SliceExpr:
			v.Lbrack, v.Rbrack = token.NoPos, token.NoPos
		case *ast.ParenExpr:
			v.Lparen, v.Rparen = token.NoPos, token.NoPos
		case *ast.FuncLit:
			v.Type.Func = token.NoPos
		case *ast.KeyValueExpr:
			v.Colon = token.NoPos
		case *ast.IncDecStmt:
			v.TokPos = token.NoPos
		case *ast.DeferStmt:
			v.Defer = token.NoPos
		case *ast.GoStmt:
			v.Go = token.NoPos
		case *ast.TypeAssertExpr:
			v.Lparen, v.Rparen = token.NoPos, token.NoPos
		case *ast.BranchStmt:
			v.TokPos = token.NoPos
		case *ast.SwitchStmt:
			v.Switch = token.NoPos
		case *ast.CaseClause:
			v.Case, v.Colon = token.NoPos, token.NoPos
		case *ast.DeclStmt:
		case *ast.GenDecl:
			v.TokPos, v.Lparen, v.Rparen = token.NoPos, token.NoPos, token.NoPos
		case *ast.ArrayType:
			v.Lbrack = token.NoPos
		case *ast.FieldList:
			v.Opening, v.Closing = token.NoPos, token.NoPos
		case *ast.FuncType:
			v.Func = token.NoPos
		case *ast.Ellipsis:
			v.Ellipsis = token.NoPos
		}
		return true
	})
}

func addImport(f *ast.File, alias, path string) {
	for _, im := range f.Imports {
		if p, _ := strconv.Unquote(im.Path.Value); p == path {
			return
		}
	}
	spec := &ast.ImportSpec{Path: &ast.BasicLit{Kind: token.STRING, Value: strconv.Quote(path)}}
	if alias != "" && alias != filepath.Base(path) {
		spec.Name = ast.NewIdent(alias)
	}
	gd := &ast.GenDecl{Tok: token.IMPORT, Specs: []ast.Spec{spec}}
	f.Decls = append([]ast.Decl{gd}, f.Decls...)
	f.Imports = append(f.Imports, spec)
}

func dropImport(f *ast.File, path string) {
	for _, d := range f.Decls {
		gd, ok := d.(*ast.GenDecl)
		if !ok || gd.Tok != token.IMPORT {
			continue
		}
		var keep []ast.Spec
		for _, s := range gd.Specs {
			if p, _ := strconv.Unquote(s.(*ast.ImportSpec).Path.Value); p != path {
				keep = append(keep, s)
			}
		}
		gd.Specs = keep
	}
}

func importName(im *ast.ImportSpec) string {
	if im.Name != nil {
		return im.Name.Name
	}
	p, _ := strconv.Unquote(im.Path.Value)
	parts := strings.Split(p, "/")
	last := parts[len(parts)-1]
	if len(parts) > 1 && len(last) >= 2 && last[0] == 'v' && last[1] >= '0' && last[1] <= '9' {
		last = parts[len(parts)-2]
	}
	last = strings.TrimPrefix(last, "go-")
	return last
}

// dropUnused removes imports that are no longer referenced after redirection.
func dropUnused(f *ast.File, cands map[string]bool, allStd bool) {
	used := map[string]bool{}
	ast.Inspect(f, func(n ast.Node) bool {
		if se, ok := n.(*ast.SelectorExpr); ok {
			if id, ok := se.X.(*ast.Ident); ok {
				used[id.Name] = true
			}
		}
		return true
	})
	for _, im := range append([]*ast.ImportSpec(nil), f.Imports...) {
		n := importName(im)
		if n == "_" || n == "." || n == "C" {
			continue
		}
		if !cands[n] {
			// after a body replacement any standard-library import may have become unused
			p, _ := strconv.Unquote(im.Path.Value)
			if !allStd || strings.Contains(strings.SplitN(p, "/", 2)[0], ".") {
				continue
			}
		}
		if !used[n] {
			p, _ := strconv.Unquote(im.Path.Value)
			dropImport(f, p)
		}
	}
}
