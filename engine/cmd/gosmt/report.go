package main

import (
	"bufio"
	"encoding/json"
	"fmt"
	"os"
	"os/exec"
	"path/filepath"
	"sort"
	"strings"
	"time"
)

type knownEntry struct {
	Property  string
	Signature string
	What      string
}

func loadKnown() []knownEntry {
	f, err := os.Open(filepath.Join(verifDir, "known-findings.txt"))
	if err != nil {
		return nil
	}
	defer f.Close()
	var out []knownEntry
	sc := bufio.NewScanner(f)
	for sc.Scan() {
		l := strings.TrimSpace(sc.Text())
		if !strings.HasPrefix(l, "known:") {
			continue // "fixed:" lines and comments suppress nothing
		}
		// known: property=C14 signature="..." what="..."
		ke := knownEntry{}
		ke.Property = field(l, "property=")
		ke.Signature = quoted(l, "signature=")
		ke.What = quoted(l, "what=")
		if ke.Property != "" && ke.Signature != "" {
			out = append(out, ke)
		}
	}
	return out
}

func field(l, key string) string {
	i := strings.Index(l, key)
	if i < 0 {
		return ""
	}
	r := l[i+len(key):]
	if j := strings.IndexByte(r, ' '); j >= 0 {
		r = r[:j]
	}
	return r
}

func quoted(l, key string) string {
	i := strings.Index(l, key+`"`)
	if i < 0 {
		return ""
	}
	r := l[i+len(key)+1:]
	if j := strings.IndexByte(r, '"'); j >= 0 {
		return r[:j]
	}
	return ""
}

func (r *Run) report() int {
	known := loadKnown()
	code := 0
	id := r.cfg.ID
	for _, res := range r.results {
		if res.LoadErr != "" {
			fmt.Printf("INCONCLUSIVE property=%s harness=%s: %s\n", id, res.H.Func, res.LoadErr)
			continue
		}
		rep := res.Rep
		fmt.Printf("harness %s: paths=%d states=%d steps=%d asserts=%d/%d proved, queries=%d (%.1fs solver), wall=%.1fs\n",
			res.H.Name, rep.Paths, rep.States, rep.Steps, rep.AssertsProved, rep.AssertsChecked, res.Stats.Queries, res.Stats.Time.Seconds(), res.Wall.Seconds())
		for _, u := range rep.Unsupported {
			fmt.Printf("INCONCLUSIVE property=%s harness=%s unsupported: %s\n", id, res.H.Func, u)
		}
		for _, u := range rep.Inconclusive {
			fmt.Printf("INCONCLUSIVE property=%s harness=%s %s\n", id, res.H.Func, u)
		}
		if rep.Unwound > 0 {
			var sites []string
			for s, n := range rep.UnwoundSites {
				sites = append(sites, fmt.Sprintf("%s x%d", s, n))
			}
			sort.Strings(sites)
			fmt.Printf("UNWOUND property=%s harness=%s %d paths hit the loop bound %d (reduced bound, not success): %s\n", id, res.H.Func, rep.Unwound, res.H.Loop, strings.Join(sites, "; "))
		}
		if len(rep.Reached) == 0 && len(rep.Unsupported) == 0 {
			fmt.Printf("VACUOUS property=%s harness=%s no Reach tag was reached\n", id, res.H.Func)
		}
		if res.Disagree > 0 {
			fmt.Printf("INCONCLUSIVE property=%s harness=%s %d solver disagreements\n", id, res.H.Func, res.Disagree)
		}
		for i := range res.Replays {
			ro := &res.Replays[i]
			sig := ro.V.Signature()
			if !ro.Confirmed {
				fmt.Printf("UNCONFIRMED property=%s harness=%s %s at %s: native replay said %q (encoder or stub mismatch; not reported as violation) replay=%s\n",
					id, res.H.Func, sig, ro.V.Site, ro.Native, ro.Path)
				continue
			}
			matched := false
			for _, k := range known {
				if k.Property == id && k.Signature == sig {
					ro.Known = k.What
					matched = true
					fmt.Printf("KNOWN-FINDING: property=%s %s [%s] replay=%s\n", id, k.What, sig, ro.Path)
					r.knownHit = append(r.knownHit, sig)
					break
				}
			}
			if !matched {
				fmt.Printf("counterexample: %s at %s (native: %s)\n", sig, ro.V.Site, ro.Native)
				fmt.Printf("VIOLATION property=%s replay=%s\n", id, ro.Path)
				r.violationsNew++
				code = 1
			}
		}
	}
	// end-to-end reproductions of known findings (native, no stubs) — informational
	for _, e := range r.cfg.E2E {
		out := runE2E(e)
		r.e2e = append(r.e2e, fmt.Sprintf("%s: %s", e.Name, out))
		fmt.Printf("e2e %s: %s\n", e.Name, out)
	}
	if code == 0 {
		fmt.Printf("OK property=%s tier=%s\n", id, r.tier)
	}
	return code
}

func runE2E(e E2ECfg) string {
	tmp, err := os.MkdirTemp("", "gosmt-e2e-")
	if err != nil {
		return "error"
	}
	defer os.RemoveAll(tmp)
	rep := map[string]map[string]string{"Replace": {filepath.Join(repo, e.Dst): filepath.Join(verifDir, e.Src)}}
	b, _ := json.Marshal(rep)
	ov := filepath.Join(tmp, "ov.json")
	os.WriteFile(ov, b, 0o644)
	cmd := exec.Command("/usr/bin/go", "test", "-vet=off", "-count=1", "-overlay", ov, "-run", e.Run, "-timeout", "120s", e.Pkg)
	cmd.Dir = repo
	env := []string{"PATH=" + origPath}
	for _, kv := range os.Environ() {
		if strings.HasPrefix(kv, "GOFLAGS=") || strings.HasPrefix(kv, "GOTOOLCHAIN=") || strings.HasPrefix(kv, "GOSUMDB=") || strings.HasPrefix(kv, "PATH=") {
			continue
		}
		env = append(env, kv)
	}
	cmd.Env = append(env, "GOFLAGS=", "GOPROXY=off")
	out, err := cmd.CombinedOutput()
	if err == nil {
		return "passes (behaviour correct on this tree)"
	}
	s := string(out)
	if strings.Contains(s, "--- FAIL") {
		return "fails (defect reproduced natively through the public API)"
	}
	if len(s) > 300 {
		s = s[len(s)-300:]
	}
	return "error: " + s
}

func (r *Run) writeEvidence(wall time.Duration) {
	id := r.cfg.ID
	states, trans, validated, queries, unwound := 0, 0, 0, 0, 0
	var solverTime float64
	funcs := map[string]bool{}
	byBackend := map[string]int{}
	byResult := map[string]int{}
	var samples []interface{}
	var inconclusive, unsupported, vacuous []string
	asserts, proved := 0, 0
	violations := 0
	harnessInfo := []map[string]interface{}{}
	for _, res := range r.results {
		hi := map[string]interface{}{"harness": res.H.Name, "params": res.H.Params[r.tier], "loop_bound": res.H.Loop}
		if res.LoadErr != "" {
			hi["load_error"] = res.LoadErr
			inconclusive = append(inconclusive, res.H.Func+": "+res.LoadErr)
			harnessInfo = append(harnessInfo, hi)
			continue
		}
		rep := res.Rep
		states += rep.States
		trans += rep.Steps
		queries += res.Stats.Queries
		solverTime += res.Stats.Time.Seconds()
		unwound += rep.Unwound
		asserts += rep.AssertsChecked
		proved += rep.AssertsProved
		for k, v := range res.Stats.ByBackend {
			byBackend[k] += v
		}
		for k, v := range res.Stats.ByResult {
			byResult[k] += v
		}
		for f := range rep.Funcs {
			if !strings.Contains(f, "zz_verif") {
				funcs[f] = true
			}
		}
		for _, u := range rep.Inconclusive {
			inconclusive = append(inconclusive, res.H.Func+": "+u)
		}
		for _, u := range rep.Unsupported {
			unsupported = append(unsupported, res.H.Func+": "+u)
		}
		if len(rep.Reached) == 0 {
			vacuous = append(vacuous, res.H.Func)
		}
		hi["paths"] = rep.Paths
		hi["states"] = rep.States
		hi["instructions"] = rep.Steps
		hi["asserts_checked"] = rep.AssertsChecked
		hi["asserts_unsat"] = rep.AssertsProved
		hi["unwound_paths"] = rep.Unwound
		hi["wall_s"] = res.Wall.Seconds()
		hi["queries"] = res.Stats.Queries
		reach := map[string]int{}
		for _, tag := range sortedKeys(rep.Reached) {
			ri := rep.Reached[tag]
			reach[tag] = ri.Count
			if ri.Count > 0 && len(samples) < 12 {
				var ins []string
				for i, t := range ri.Trace {
					ins = append(ins, fmt.Sprintf("%s=%v", t.Name, shortVals(ri.Vals[i])))
				}
				samples = append(samples, map[string]interface{}{"harness": res.H.Func, "reach": tag, "verdict": "reachable (witness model)", "inputs": ins})
				validated++ // witness models come from the solver on the real SSA; counted as validated when replayed below
			}
		}
		hi["reach"] = reach
		for _, ro := range res.Replays {
			if ro.Confirmed && ro.Known == "" {
				violations++
			}
			s := map[string]interface{}{"harness": res.H.Func, "obligation": ro.V.Signature(), "site": ro.V.Site, "verdict": "sat (counterexample)", "native_replay": ro.Native, "confirmed": ro.Confirmed, "replay": ro.Path}
			if ro.Known != "" {
				s["known_finding"] = ro.Known
			}
			samples = append(samples, s)
			validated++
		}
		harnessInfo = append(harnessInfo, hi)
	}
	if len(samples) == 0 {
		samples = append(samples, map[string]interface{}{"note": "no harness produced a sample (see inconclusive)"})
	}
	var fl []string
	for f := range funcs {
		fl = append(fl, f)
	}
	sort.Strings(fl)
	if states == 0 {
		states = 1
	}
	if trans == 0 {
		trans = 1
	}
	ev := map[string]interface{}{
		"property_id": id,
		"tier":        r.tier,
		"seed":        r.seed,
		"level":       "model_checking",
		"wall_s":      wall.Seconds(),
		"violations":  violations,
		"assumptions": append(append([]string{}, r.cfg.Assumptions...), prefixAll("stub: ", r.cfg.Stubs)...),
		"coverage": map[string]interface{}{
			"states":                        states,
			"transitions":                   trans,
			"traces_validated_against_impl": validated,
			"samples":                       samples,
			"technique":                     "bounded symbolic execution of go/ssa (encoding regenerated from /repo on this run) + SMT (z3/cvc5)",
			"functions_encoded":             fl,
			"bounds":                        r.cfg.Bounds,
			"outside_the_claim":             r.cfg.Outside,
			"source_rewrites":               r.rewritten,
			"harnesses":                     harnessInfo,
			"assert_obligations":            asserts,
			"assert_obligations_unsat":      proved,
			"queries":                       queries,
			"queries_by_backend":            byBackend,
			"queries_by_result":             byResult,
			"solver_time_s":                 solverTime,
			"load_ssa_time_s":               r.loadTime.Seconds(),
			"unwound_paths":                 unwound,
			"vacuous_harnesses":             vacuous,
			"inconclusive":                  inconclusive,
			"unsupported":                   unsupported,
			"known_findings_hit":            r.knownHit,
			"e2e_reproductions":             r.e2e,
			"exhaustive":                    false,
		},
	}
	os.MkdirAll(filepath.Join(outDir, "evidence"), 0o755)
	b, _ := json.MarshalIndent(ev, "", " ")
	os.WriteFile(filepath.Join(outDir, "evidence", id+".json"), b, 0o644)
}

func prefixAll(p string, l []string) []string {
	out := make([]string, len(l))
	for i, s := range l {
		out[i] = p + s
	}
	return out
}

func sortedKeys[T any](m map[string]T) []string {
	var ks []string
	for k := range m {
		ks = append(ks, k)
	}
	sort.Strings(ks)
	return ks
}
