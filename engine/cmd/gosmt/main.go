// gosmt: bounded symbolic execution of go/ssa harnesses against /repo, SMT-decided.
package main

import (
	"encoding/json"
	"flag"
	"fmt"
	"os"
	"os/exec"
	"path/filepath"
	"regexp"
	"sort"
	"strings"
	"sync"
	"time"

	"golang.org/x/tools/go/packages"
	"golang.org/x/tools/go/ssa"
	"golang.org/x/tools/go/ssa/ssautil"

	"verif/engine/rewrite"
	"verif/engine/smt"
	"verif/engine/sym"
)

type HarnessCfg struct {
	Name     string                    `json:"name"` // label (default: func); distinguishes several configurations of one harness
	Func     string                    `json:"func"`
	Pkg      string                    `json:"pkg"`
	Loop     int                       `json:"loop"`
	Tiers    []string                  `json:"tiers"`
	Params   map[string]map[string]int `json:"params"` // tier -> name -> value
	MaxPaths int                       `json:"max_paths"`
	Variant  string                    `json:"variant"` // load variant name (default "")
	TimeoutMs int                      `json:"solver_timeout_ms"`
	InlineGo bool                      `json:"inline_go"`
	Int      bool                      `json:"int"`       // add the cvc5 --solve-bv-as-int back end to the portfolio (div/mod by constants)
	MaxSec   map[string]int            `json:"max_seconds"` // tier -> exploration budget
	QuickMs  int                       `json:"quick_ms"`  // time slice of the persistent primary solver before the portfolio
	Summarise []string                 `json:"summarise"` // pure scalar functions (ssa names) whose paths are merged into one term at every call
	MapOrder []string                  `json:"map_order"` // functions (ssa names) whose map ranges are explored in every iteration order
}

type Variant struct {
	Env  []string `json:"env"`
	Tags string   `json:"tags"`
}

type CheckCfg struct {
	ID          string              `json:"id"`
	Load        []string            `json:"load"`
	Variants    map[string]Variant  `json:"variants"`
	Overlays    map[string]string   `json:"overlays"` // repo-relative dst -> verif-relative src
	Rewrites    []rewrite.Rule      `json:"rewrites"`
	BlackHole   []string            `json:"blackhole"`
	NoInit      []string            `json:"noinit"`
	Harnesses   []HarnessCfg        `json:"harnesses"`
	Assumptions []string            `json:"assumptions"`
	Outside     []string            `json:"outside_the_claim"`
	Bounds      map[string]string   `json:"bounds"`
	Stubs       []string            `json:"stubs"`
	E2E         []E2ECfg            `json:"e2e"`
}

// E2ECfg is an end-to-end native reproduction of a known finding through the public API (no stubs).
type E2ECfg struct {
	Name string `json:"name"`
	Src  string `json:"src"` // verif-relative test file
	Dst  string `json:"dst"` // repo-relative *_test.go path
	Run  string `json:"run"`
	Pkg  string `json:"pkg"` // ./pkg/...
}

var defaultBlackHole = []string{
	"github.com/els0r/telemetry", "go.opentelemetry.io", "github.com/prometheus", "log/slog", "log",
	"github.com/els0r/goProbe/v4/pkg/telemetry",
}

// repo is the tree under test (GOSMT_REPO overrides it: used to run the checks against a scratch worktree
// holding a seeded change); outDir receives evidence and replay files (GOSMT_OUT; default: the /verif tree)
var repo = "/repo"

var outDir = ""

var origPath string

var verifDir = "/verif"

func main() {
	cfgPath := flag.String("config", "", "check config json")
	tier := flag.String("tier", "quick", "quick|thorough")
	replayPath := flag.String("replay", "", "replay a stored counterexample natively")
	only := flag.String("only", "", "run only harnesses matching this regexp")
	verbose := flag.Bool("v", false, "verbose instruction trace")
	jobs := flag.Int("j", 8, "parallel harnesses")
	noReplay := flag.Bool("noreplay", false, "skip native replay (debug)")
	flag.Parse()
	origPath = os.Getenv("PATH")
	os.Setenv("PATH", "/opt/veriftools/go1.26.8/bin:"+origPath)
	if d := os.Getenv("VERIF_DIR"); d != "" {
		verifDir = d
	}
	if d := os.Getenv("GOSMT_REPO"); d != "" {
		repo = d
	}
	outDir = verifDir
	if d := os.Getenv("GOSMT_OUT"); d != "" {
		outDir = d
	}
	if t := os.Getenv("VERIF_TIER"); t != "" && !isFlagSet("tier") {
		*tier = t
	}
	t0 := time.Now()
	var cfg CheckCfg
	b, err := os.ReadFile(*cfgPath)
	if err != nil {
		fatal("read config: %v", err)
	}
	if err := json.Unmarshal(b, &cfg); err != nil {
		fatal("parse config: %v", err)
	}
	if *replayPath != "" {
		os.Exit(replayOnly(&cfg, *replayPath))
	}
	seed := 0
	fmt.Sscanf(os.Getenv("VERIF_SEED"), "%d", &seed)

	run := &Run{cfg: &cfg, tier: *tier, seed: seed, verbose: *verbose, noReplay: *noReplay}
	if *only != "" {
		run.only = regexp.MustCompile(*only)
	}
	run.jobs = *jobs
	code := run.execute()
	run.writeEvidence(time.Since(t0))
	os.Exit(code)
}

func isFlagSet(name string) bool {
	set := false
	flag.Visit(func(f *flag.Flag) {
		if f.Name == name {
			set = true
		}
	})
	return set
}

func fatal(f string, a ...interface{}) {
	fmt.Fprintf(os.Stderr, "gosmt: "+f+"\n", a...)
	os.Exit(2)
}

type HResult struct {
	H        HarnessCfg
	Rep      *sym.Report
	Stats    smt.Stats
	Wall     time.Duration
	Replays  []ReplayOutcome
	LoadErr  string
	Disagree int
}

type ReplayOutcome struct {
	V         *sym.Violation
	Path      string
	Confirmed bool
	Native    string
	Known     string
}

type Run struct {
	cfg      *CheckCfg
	tier     string
	seed     int
	verbose  bool
	noReplay bool
	only     *regexp.Regexp
	jobs     int
	results  []*HResult
	overlay  map[string][]byte
	rewritten []string
	loadTime time.Duration
	e2e      []string
	violationsNew int
	knownHit []string
	mu       sync.Mutex
}

func (r *Run) buildOverlay(native bool) (map[string][]byte, error) {
	ov := map[string][]byte{}
	vf := "sym.go.txt"
	if native {
		vf = "native.go.txt"
	}
	b, err := os.ReadFile(filepath.Join(verifDir, "harness/zz_verif", vf))
	if err != nil {
		return nil, err
	}
	ov[filepath.Join(repo, "zz_verif/verif.go")] = b
	common, _ := filepath.Glob(filepath.Join(verifDir, "harness/zz_verif/common/*.go"))
	for _, cf := range common {
		cb, err := os.ReadFile(cf)
		if err != nil {
			return nil, err
		}
		ov[filepath.Join(repo, "zz_verif", filepath.Base(cf))] = cb
	}
	for dst, src := range r.cfg.Overlays {
		b, err := os.ReadFile(filepath.Join(verifDir, src))
		if err != nil {
			return nil, err
		}
		ov[filepath.Join(repo, dst)] = b
	}
	rw, names, err := rewrite.Apply(repo, r.cfg.Rewrites)
	if err != nil {
		return nil, fmt.Errorf("rewrite: %w", err)
	}
	for k, v := range rw {
		ov[k] = v
	}
	r.rewritten = names
	return ov, nil
}

func loadEnv(v Variant) []string {
	env := os.Environ()
	var out []string
	for _, kv := range env {
		if strings.HasPrefix(kv, "GOFLAGS=") || strings.HasPrefix(kv, "GOTOOLCHAIN=") || strings.HasPrefix(kv, "GOPROXY=") || strings.HasPrefix(kv, "PATH=") || strings.HasPrefix(kv, "GOSUMDB=") {
			continue
		}
		out = append(out, kv)
	}
	out = append(out, "GOFLAGS=", "GOTOOLCHAIN=local", "GOPROXY=off", "PATH="+os.Getenv("PATH"))
	out = append(out, v.Env...)
	return out
}

func (r *Run) load(v Variant) (*ssa.Program, []*ssa.Package, error) {
	cfg := &packages.Config{Mode: packages.LoadAllSyntax, Dir: repo, Overlay: r.overlay, Env: loadEnv(v)}
	if v.Tags != "" {
		cfg.BuildFlags = []string{"-tags=" + v.Tags}
	}
	pkgs, err := packages.Load(cfg, r.cfg.Load...)
	if err != nil {
		return nil, nil, err
	}
	var errs []string
	packages.Visit(pkgs, nil, func(p *packages.Package) {
		for _, e := range p.Errors {
			errs = append(errs, e.Error())
		}
	})
	if len(errs) > 0 {
		if len(errs) > 8 {
			errs = errs[:8]
		}
		return nil, nil, fmt.Errorf("type errors: %s", strings.Join(errs, "; "))
	}
	prog, spkgs := ssautil.AllPackages(pkgs, ssa.InstantiateGenerics)
	prog.Build()
	return prog, spkgs, nil
}

func (r *Run) execute() int {
	var err error
	r.overlay, err = r.buildOverlay(false)
	if err != nil {
		fmt.Printf("INCONCLUSIVE property=%s cannot build overlay: %v\n", r.cfg.ID, err)
		return 0
	}
	// group harnesses by variant
	byVar := map[string][]HarnessCfg{}
	for _, h := range r.cfg.Harnesses {
		if h.Name == "" {
			h.Name = h.Func
		}
		if len(h.Tiers) > 0 && !contains(h.Tiers, r.tier) {
			continue
		}
		if r.only != nil && !r.only.MatchString(h.Func) && !r.only.MatchString(h.Name) {
			continue
		}
		byVar[h.Variant] = append(byVar[h.Variant], h)
	}
	var vnames []string
	for k := range byVar {
		vnames = append(vnames, k)
	}
	sort.Strings(vnames)
	for _, vn := range vnames {
		tl := time.Now()
		prog, _, err := r.load(r.cfg.Variants[vn])
		r.loadTime += time.Since(tl)
		if err != nil {
			for _, h := range byVar[vn] {
				r.results = append(r.results, &HResult{H: h, LoadErr: err.Error()})
			}
			fmt.Printf("INCONCLUSIVE property=%s harness does not load against the current tree (variant %q): %v\n", r.cfg.ID, vn, err)
			continue
		}
		sem := make(chan struct{}, r.jobs)
		var wg sync.WaitGroup
		for _, h := range byVar[vn] {
			h := h
			wg.Add(1)
			sem <- struct{}{}
			go func() {
				defer wg.Done()
				defer func() { <-sem }()
				res := r.runHarness(prog, h)
				r.mu.Lock()
				r.results = append(r.results, res)
				r.mu.Unlock()
			}()
		}
		wg.Wait()
	}
	sort.Slice(r.results, func(i, j int) bool { return r.results[i].H.Func < r.results[j].H.Func })
	return r.report()
}

func contains(l []string, s string) bool {
	for _, x := range l {
		if x == s {
			return true
		}
	}
	return false
}

func (r *Run) runHarness(prog *ssa.Program, h HarnessCfg) *HResult {
	res := &HResult{H: h}
	t0 := time.Now()
	var pkg *ssa.Package
	for _, p := range prog.AllPackages() {
		if p.Pkg.Path() == h.Pkg {
			pkg = p
		}
	}
	if pkg == nil {
		res.LoadErr = "package not found: " + h.Pkg
		return res
	}
	fn := pkg.Func(h.Func)
	if fn == nil {
		res.LoadErr = "harness function not found: " + h.Func
		return res
	}
	solver := smt.NewSolver()
	defer solver.Close()
	if h.TimeoutMs > 0 {
		solver.TimeoutMs = h.TimeoutMs
	}
	if h.Int {
		solver.RaceInt = true
		solver.QuickMs = 400
	}
	if h.QuickMs > 0 {
		solver.QuickMs = h.QuickMs
	}
	if r.tier == "thorough" {
		cr := smt.Z3
		solver.Cross = &cr
	}
	solver.Log = os.Stderr
	params := map[string]int{}
	for k, v := range h.Params[r.tier] {
		params[k] = v
	}
	cfg := sym.Config{LoopBound: h.Loop, MaxPaths: h.MaxPaths, BlackHole: append(append([]string{}, defaultBlackHole...), r.cfg.BlackHole...),
		NoInit: r.cfg.NoInit, Verbose: r.verbose, InlineGo: h.InlineGo, Progress: true}
	if len(h.Summarise) > 0 {
		cfg.Summarise = map[string]bool{}
		for _, fn := range h.Summarise {
			cfg.Summarise[fn] = true
		}
	}
	if len(h.MapOrder) > 0 {
		cfg.MapOrder = map[string]bool{}
		for _, fn := range h.MapOrder {
			cfg.MapOrder[fn] = true
		}
	}
	if ms, ok := h.MaxSec[r.tier]; ok && ms > 0 {
		cfg.MaxWall = time.Duration(ms) * time.Second
	} else if r.tier == "quick" {
		cfg.MaxWall = 600 * time.Second
	} else {
		cfg.MaxWall = 15 * time.Minute
	}
	eng := sym.NewEngine(prog, solver, cfg)
	eng.Params = params
	eng.Log = os.Stderr
	if os.Getenv("GOSMT_QSITES") != "" {
		eng.QSites = map[string]int{}
	}
	res.Rep = eng.RunHarness(fn)
	if eng.QSites != nil {
		type kv struct {
			k string
			v int
		}
		var l []kv
		for k, v := range eng.QSites {
			l = append(l, kv{k, v})
		}
		sort.Slice(l, func(i, j int) bool { return l[i].v > l[j].v })
		for i, x := range l {
			if i >= 25 {
				break
			}
			fmt.Fprintf(os.Stderr, "QSITE %6d %s\n", x.v, x.k)
		}
	}
	res.Stats = solver.St
	res.Disagree = solver.Disagreements
	res.Wall = time.Since(t0)
	// replay violations natively
	for i, v := range res.Rep.Violations {
		ro := ReplayOutcome{V: v}
		ro.Path = filepath.Join(outDir, "evidence/replay", fmt.Sprintf("%s-%s-%d.json", r.cfg.ID, h.Name, i))
		writeReplay(ro.Path, r.cfg.ID, h, v, params)
		if r.noReplay {
			ro.Confirmed = true
			ro.Native = "skipped"
		} else {
			ro.Native = nativeReplay(r.cfg, h, ro.Path)
			ro.Confirmed = confirms(v, ro.Native)
		}
		res.Replays = append(res.Replays, ro)
	}
	return res
}

type replayFile struct {
	Property string         `json:"property"`
	Harness  string         `json:"harness"`
	Name     string         `json:"name,omitempty"`
	Pkg      string         `json:"pkg"`
	Kind     string         `json:"kind"`
	Msg      string         `json:"msg"`
	Site     string         `json:"site"`
	Values   [][]uint64     `json:"values"`
	Params   map[string]int `json:"params"`
	Inputs   []string       `json:"inputs"`
	Notes    []string       `json:"notes,omitempty"`
}

func writeReplay(path, id string, h HarnessCfg, v *sym.Violation, params map[string]int) {
	os.MkdirAll(filepath.Dir(path), 0o755)
	rf := replayFile{Property: id, Harness: h.Func, Name: h.Name, Pkg: h.Pkg, Kind: v.Kind, Msg: v.Msg, Site: v.Site, Values: v.Vals, Params: params, Notes: v.Notes}
	for i, t := range v.Trace {
		rf.Inputs = append(rf.Inputs, fmt.Sprintf("%s %s = %v", t.Kind, t.Name, shortVals(v.Vals[i])))
	}
	if rf.Values == nil {
		rf.Values = [][]uint64{}
	}
	b, _ := json.MarshalIndent(rf, "", " ")
	os.WriteFile(path, b, 0o644)
}

func shortVals(v []uint64) interface{} {
	if len(v) == 1 {
		return v[0]
	}
	if len(v) > 48 {
		return fmt.Sprintf("%v…(%d)", v[:48], len(v))
	}
	return v
}

func pkgDir(pkg string) string {
	return "./" + strings.TrimPrefix(strings.TrimPrefix(pkg, "github.com/els0r/goProbe/v4"), "/")
}

// nativeReplay runs the harness natively under the model; returns the REPLAY-RESULT payload.
func nativeReplay(cfg *CheckCfg, h HarnessCfg, replayPath string) string {
	r := &Run{cfg: cfg}
	ov, err := r.buildOverlay(true)
	if err != nil {
		return "error: " + err.Error()
	}
	tmp, err := os.MkdirTemp("", "gosmt-replay-")
	if err != nil {
		return "error: " + err.Error()
	}
	defer os.RemoveAll(tmp)
	dir := pkgDir(h.Pkg)
	pkgName := ""
	// package name from harness overlay file
	for dst, src := range cfg.Overlays {
		if filepath.Dir(filepath.Join(repo, dst)) == filepath.Join(repo, dir) {
			b, _ := os.ReadFile(filepath.Join(verifDir, src))
			m := regexp.MustCompile(`(?m)^package (\w+)`).FindSubmatch(b)
			if m != nil {
				pkgName = string(m[1])
			}
		}
	}
	if pkgName == "" {
		return "error: cannot determine package name"
	}
	test := fmt.Sprintf(`package %s

import (
	"os"
	"testing"

	zzv "github.com/els0r/goProbe/v4/zz_verif"
)

func TestVerifReplay(t *testing.T) {
	if err := zzv.Load(os.Getenv("VERIF_REPLAY")); err != nil {
		t.Fatal(err)
	}
	zzv.Run(%s)
}
`, pkgName, h.Func)
	ov[filepath.Join(repo, dir, "zz_verif_replay_test.go")] = []byte(test)
	rep := map[string]map[string]string{"Replace": {}}
	i := 0
	for k, v := range ov {
		p := filepath.Join(tmp, fmt.Sprintf("f%d.go", i))
		i++
		os.WriteFile(p, v, 0o644)
		rep["Replace"][k] = p
	}
	ovb, _ := json.Marshal(rep)
	ovPath := filepath.Join(tmp, "overlay.json")
	os.WriteFile(ovPath, ovb, 0o644)
	args := []string{"test", "-vet=off", "-count=1", "-overlay", ovPath, "-run", "^TestVerifReplay$", "-v", "-timeout", "120s"}
	v := cfg.Variants[h.Variant]
	if v.Tags != "" {
		args = append(args, "-tags", v.Tags)
	}
	args = append(args, dir)
	cmd := exec.Command("/usr/bin/go", args...)
	cmd.Dir = repo
	env := []string{"PATH=" + origPath}
	for _, kv := range os.Environ() {
		if strings.HasPrefix(kv, "GOFLAGS=") || strings.HasPrefix(kv, "GOTOOLCHAIN=") || strings.HasPrefix(kv, "GOSUMDB=") || strings.HasPrefix(kv, "PATH=") {
			continue
		}
		env = append(env, kv)
	}
	env = append(env, "GOFLAGS=", "GOPROXY=off", "VERIF_REPLAY="+replayPath)
	env = append(env, v.Env...)
	cmd.Env = env
	out, _ := cmd.CombinedOutput()
	s := string(out)
	if os.Getenv("VERIF_FSLOG") != "" {
		for _, l := range strings.Split(s, "\n") {
			if strings.HasPrefix(l, "FSLOG") {
				fmt.Fprintln(os.Stderr, l)
			}
		}
	}
	if i := strings.Index(s, "REPLAY-RESULT: "); i >= 0 {
		line := s[i+len("REPLAY-RESULT: "):]
		if j := strings.IndexByte(line, '\n'); j >= 0 {
			line = line[:j]
		}
		return line
	}
	if strings.Contains(s, "panic: test timed out") || strings.Contains(s, "all goroutines are asleep") {
		return "blocked"
	}
	if len(s) > 600 {
		s = s[len(s)-600:]
	}
	return "error: " + s
}

func confirms(v *sym.Violation, native string) bool {
	switch v.Kind {
	case "assert":
		return native == "assert "+v.Msg
	case "panic":
		if !strings.HasPrefix(native, "panic ") {
			return false
		}
		return true
	case "blocks":
		return native == "blocked"
	}
	return false
}

func replayOnly(cfg *CheckCfg, path string) int {
	b, err := os.ReadFile(path)
	if err != nil {
		fatal("%v", err)
	}
	var rf replayFile
	if err := json.Unmarshal(b, &rf); err != nil {
		fatal("%v", err)
	}
	var h HarnessCfg
	for _, x := range cfg.Harnesses {
		if x.Func == rf.Harness && (h.Func == "" || x.Name == rf.Name) {
			h = x
		}
	}
	if h.Func == "" {
		fatal("harness %s not in config", rf.Harness)
	}
	abs, _ := filepath.Abs(path)
	out := nativeReplay(cfg, h, abs)
	fmt.Printf("replay of %s (%s: %s at %s)\nnative result: %s\n", rf.Harness, rf.Kind, rf.Msg, rf.Site, out)
	v := &sym.Violation{Kind: rf.Kind, Msg: rf.Msg}
	if confirms(v, out) {
		fmt.Printf("VIOLATION property=%s replay=%s\n", cfg.ID, path)
		return 1
	}
	fmt.Println("not reproduced on this tree")
	return 0
}
