#!/usr/bin/env python3
"""Regenerates /verif/MANIFEST.json from tools/claims.json (one entry per property)."""
import json, os, sys
root = os.path.dirname(os.path.dirname(os.path.abspath(__file__)))
claims = json.load(open(os.path.join(root, "tools/claims.json")))
props = [json.loads(l) for l in open(os.path.join(root, "properties.jsonl"))]
baseline = json.load(open("/root/.vp/BASELINE.json"))["cmd"] if os.path.exists("/root/.vp/BASELINE.json") else claims["baseline_off_cmd"]
checks, na = [], []
for p in props:
    pid = p["id"]
    c = claims["properties"].get(pid, {})
    if c.get("claimed"):
        checks.append({
            "property_id": pid,
            "quick_cmd": f"./bin/check {pid} quick",
            "thorough_cmd": f"./bin/check {pid} thorough",
            "evidence_file": f"/verif/evidence/{pid}.json",
            "replay_cmd_template": f"./bin/check {pid} --replay {{path}}",
            "engine": "gosmt",
            "level_claimed": {"category": "model_checking", "text": c["text"], "design_ref": f"DESIGN.md section 5 ({pid})"},
            "level_note": c["note"],
            "technique": c.get("technique", "bounded symbolic execution of the real go/ssa + SMT (z3/cvc5); counterexamples replayed natively"),
        })
    else:
        na.append({"property_id": pid, "reason": c.get("reason", "no solver-based check has been built for this property yet (see DESIGN.md)")})
m = {
    "version": 1,
    "setup_cmd": "./bin/setup",
    "hooks": {"guard": "verif", "enable": "no source hooks: harnesses, intrinsics and stubs are injected as go/packages and `go test -overlay` overlays generated from /repo's current files on every run",
              "baseline_off_cmd": baseline, "source_commits": [], "add_only": True},
    "engines": [{"name": "gosmt", "path": "/verif/engine", "serves_properties": [c["property_id"] for c in checks],
                 "kind_free_text": "bounded symbolic executor for go/ssa (x/tools v0.50.0) emitting SMT-LIB2, decided by z3 4.8.12 / z3 5.1.0 / cvc5 1.0; native replay of models via go test -overlay"}],
    "checks": checks,
    "not_applicable": na,
    "notes": "All checks: ./bin/check <id> quick|thorough. Known findings and fixed defects: /verif/known-findings.txt. See DESIGN.md.",
}
json.dump(m, open(os.path.join(root, "MANIFEST.json"), "w"), indent=1)
print(f"{len(checks)} claimed, {len(na)} not applicable")
