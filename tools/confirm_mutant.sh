#!/bin/bash
# usage: tools/confirm_mutant.sh <dir with patch.diff demo_test.go meta.json> <pkgs to test...>
# Confirms in a scratch worktree: patch applies, builds, existing tests of <pkgs> pass with it,
# demo fails with it and passes without it. Prints one CONFIRMED/REJECTED line.
d="$(cd "$1" && pwd)"; shift
wt=$(mktemp -d /tmp/wt/confirm.XXXX)
git -C /repo worktree add -q --detach "$wt" HEAD || exit 2
cleanup() { git -C /repo worktree remove --force "$wt" 2>/dev/null; rm -rf "$wt"; }
trap cleanup EXIT
cd "$wt"
export GOFLAGS= GOPROXY=off
dir=$(head -5 "$d/demo_test.go" | grep -o 'dir: *[^ ]*' | head -1 | sed 's/dir: *//')
[ -z "$dir" ] && dir=$(python3 -c "import json,sys;print(json.load(open(sys.argv[1])).get('demo_pkg','').strip('./'))" "$d/meta.json" 2>/dev/null)
[ -z "$dir" ] && { echo "REJECTED no dir comment in demo and no demo_pkg in meta.json"; exit 1; }
tname=$(grep -o 'func TestSeeded[A-Za-z0-9_]*' "$d/demo_test.go" | head -1 | sed 's/func //')
# demos without the TestSeeded prefix: run every test of the file (a re-exec helper test skips itself)
[ -z "$tname" ] && tname="($(grep -o '^func Test[A-Za-z0-9_]*' "$d/demo_test.go" | sed 's/func //' | paste -sd'|'))"
git apply "$d/patch.diff" || { echo "REJECTED patch does not apply"; exit 1; }
go build ./... >/dev/null 2>&1 || { echo "REJECTED does not build"; exit 1; }
pk="$@"; [ -z "$pk" ] && pk="./$dir/..."
if ! go test -vet=off -count=1 ${CONFIRM_SKIP:+-skip $CONFIRM_SKIP} $pk > "$wt/.t.log" 2>&1; then echo "REJECTED existing tests fail with the change: $(grep -E '^(--- FAIL|FAIL)' $wt/.t.log | head -3 | tr '\n' ' ')"; exit 1; fi
cp "$d/demo_test.go" "$dir/zz_seeded_demo_test.go"
if go test -vet=off -count=1 -run "^${tname}\$" "./$dir" > "$wt/.d1.log" 2>&1; then echo "REJECTED demo passes with the change"; exit 1; fi
grep -q -E "^(--- FAIL|panic:|FAIL)" "$wt/.d1.log" || { echo "REJECTED demo did not run: $(tail -3 $wt/.d1.log)"; exit 1; }
rm "$dir/zz_seeded_demo_test.go"; git checkout -q -- . ; cp "$d/demo_test.go" "$dir/zz_seeded_demo_test.go"
if ! go test -vet=off -count=1 -run "^${tname}\$" "./$dir" > "$wt/.d2.log" 2>&1; then echo "REJECTED demo fails without the change: $(tail -5 $wt/.d2.log | tr '\n' ' ')"; exit 1; fi
echo "CONFIRMED $tname in $dir (existing tests of [$pk] pass with the change; demo fails with it, passes without)"
