#!/bin/bash
# usage: tools/try_mutant.sh <patch.diff> <id> [extra gosmt args]  -- applies to /repo, runs the quick check, reverts
p="$1"; id="$2"; shift; shift
cd /repo && git apply "$p" || { echo "PATCH DOES NOT APPLY"; exit 3; }
cd /verif && ./bin/check "$id" quick "$@" 2>&1 | grep -E "VIOLATION|KNOWN|INCONCL|UNCONF|UNWOUND|VACUOUS|^OK|counterexample" | head -12
git -C /repo checkout -- . ; git -C /repo status --short | head -3
