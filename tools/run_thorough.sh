#!/bin/bash
# Runs the thorough tier of every claimed property, N lanes in parallel; keeps a copy of each evidence file
# under evidence-thorough/ (evidence/<id>.json itself is rewritten by every run of a check).
cd "$(dirname "$0")/.."
lanes=${1:-3}
mkdir -p /tmp/thorough evidence-thorough
ids=$(python3 -c "import json;print(' '.join(p['property_id'] for p in json.load(open('MANIFEST.json'))['checks']))")
one() {
  id=$1; t0=$(date +%s)
  ./bin/check $id thorough > /tmp/thorough/$id.log 2>&1; rc=$?
  cp evidence/$id.json evidence-thorough/$id.json 2>/dev/null
  echo "$id rc=$rc $(( $(date +%s)-t0 ))s $(grep -E '^(VIOLATION|INCONCLUSIVE|UNWOUND|VACUOUS|UNCONFIRMED)' /tmp/thorough/$id.log | cut -c1-160 | head -3 | tr '\n' ';')"
}
export -f one
echo $ids | tr ' ' '\n' | xargs -P $lanes -I{} bash -c 'one {}'
