#!/bin/bash
# Runs every kept seeded change against the check(s) expected to see it, each in its own scratch worktree of
# /repo (GOSMT_REPO) with evidence redirected to a scratch directory; /repo and /verif/evidence are untouched.
# usage: tools/sweep_mutants.sh [lanes]   -> one line per (change, check): CAUGHT / missed / inconclusive
cd "$(dirname "$0")/.."
lanes=${1:-4}
mkdir -p /tmp/wt/sweep
one() {
  m=$1; id=$2
  key=$(echo $m | sed 's|/verif/seeded/||')
  wt=$(mktemp -d /tmp/wt/sweep/wt.XXXX); out=$(mktemp -d /tmp/wt/sweep/out.XXXX)
  git -C /repo worktree add -q --detach "$wt" HEAD 2>/dev/null || { echo "$key $id ERROR worktree"; return; }
  if git -C "$wt" apply "$m/patch.diff" 2>/dev/null; then
    log=$out/log.txt
    GOSMT_REPO="$wt" GOSMT_OUT="$out" timeout 1500 ./bin/gosmt -config harness/$id/check.json -tier quick -noreplay > $log 2>&1
    if grep -q '^VIOLATION' $log; then res="CAUGHT $(grep '^counterexample' $log | head -1 | cut -c1-140)";
    elif grep -q -E '^INCONCLUSIVE.*(cannot build|unsupported|engine)' $log; then res="inconclusive $(grep '^INCONCLUSIVE' $log | head -1 | cut -c1-140)";
    else res="missed"; fi
  else res="ERROR patch does not apply"; fi
  echo "$key $id $res"
  git -C /repo worktree remove --force "$wt" 2>/dev/null; rm -rf "$wt" "$out"
}
export -f one
python3 - <<'PY' | xargs -P $lanes -L1 bash -c 'one $0 $1'
import json,os,glob
extra={'C09/m3':['C08'],'C10/m3':['C09'],'C20/m3':['C23'],'C08/m1':['C12']}
for d in sorted(glob.glob('/verif/seeded/*/m*')):
    key=d.replace('/verif/seeded/','')
    pid=key.split('/')[0].rstrip('b')
    for c in [pid]+extra.get(key,[]):
        print(d,c)
PY
