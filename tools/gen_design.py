#!/usr/bin/env python3
"""Generates the per-property section and the seeded-change table of DESIGN.md from the check
configurations, the claims, the known-findings file and the recorded mutant results."""
import json, os, re, glob
V='/verif'
claims=json.load(open(f'{V}/tools/claims.json'))['properties']
props={}
for l in open(f'{V}/properties.jsonl'):
    p=json.loads(l); props[p['id']]=p
mres=json.load(open(f'{V}/tools/mutant_results.json'))
known=[l.strip() for l in open(f'{V}/known-findings.txt') if l.startswith(('known:','fixed:'))]
def kf(pid,kind):
    out=[]
    for l in known:
        if l.startswith(kind+':') and f'property={pid} ' in l:
            out.append(l)
    return out
def sec5():
    o=[]
    for pid in sorted(props):
        p=props[pid]; c=claims.get(pid,{})
        o.append(f"### {pid} {p['title']}\n")
        cfgp=f'{V}/harness/{pid}/check.json'
        cfg=json.load(open(cfgp)) if os.path.exists(cfgp) else {}
        o.append(f"*Decided:* {c.get('text','(not claimed)')}\n")
        if c.get('note'): o.append(f"*Level note:* {c['note']}\n")
        hs=cfg.get('harnesses',[])
        if hs:
            o.append("*Harnesses:* "+", ".join(sorted({h.get('name') or h['func'] for h in hs}))+f" (`harness/{pid}/`).\n")
        for key,label in (('bounds','Bounds'),('stubs','Stubs'),('assumptions','Assumptions'),('outside_the_claim','Outside the claim')):
            v=cfg.get(key)
            if not v: continue
            if isinstance(v,dict): items=[f"{k}: {x}" for k,x in v.items()]
            else: items=list(v)
            o.append(f"*{label}:*\n"+"\n".join(f"- {i}" for i in items)+"\n")
        fx=kf(pid,'fixed'); kn=kf(pid,'known')
        if fx:
            o.append("*Defects found by this check and repaired in /repo:*\n"+"\n".join("- `"+re.sub(r'^fixed: property=\S+ (\S+) ',r'\1` ',l) for l in fx)+"\n")
        if kn:
            o.append("*Known findings (reported as KNOWN-FINDING, exit 0):*\n"+"\n".join("- "+re.search(r'what="(.*)"$',l).group(1)+" — signature `"+re.search(r'signature="([^"]*)"',l).group(1)+"`" for l in kn)+"\n")
        ms=sorted(k for k in mres if k.startswith(pid+'/') or k.startswith(pid+'b/'))
        if ms:
            o.append("*Seeded changes:* "+"; ".join(f"{k.split('/',1)[0][3:]+k.split('/')[1]}: "+("caught by "+mres[k]['by'] if mres[k]['caught'] else ("not applicable - "+mres[k]['why'] if mres[k]['caught'] is None else "NOT caught - "+mres[k]['why'])) for k in ms)+".\n")
    return "\n".join(o)
def mutant_table():
    o=["| change | kept under | result |","|---|---|---|"]
    for k in sorted(mres):
        r=mres[k]
        kept='yes' if os.path.exists(f'{V}/seeded/{k}/patch.diff') else 'no (see text)'
        res=("caught: "+r['by']) if r['caught'] else (("n/a: "+r['why']) if r['caught'] is None else ("missed: "+r['why']))
        o.append(f"| {k} | {kept} | {res} |")
    return "\n".join(o)
if __name__=='__main__':
    tpl=open(f'{V}/tools/DESIGN.tpl.md').read()
    tpl=tpl.replace('@@SECTION5@@',sec5()).replace('@@MUTANTS@@',mutant_table())
    n=sum(1 for v in mres.values() if v['caught']); m=sum(1 for v in mres.values() if v['caught'] is False)
    tpl=tpl.replace('@@NCAUGHT@@',str(n)).replace('@@NMISSED@@',str(m)).replace('@@NMUT@@',str(len(mres)))
    open(f'{V}/DESIGN.md','w').write(tpl)
    print('DESIGN.md written',len(tpl.splitlines()),'lines')
