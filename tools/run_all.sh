#!/bin/bash
# Runs every claimed property's quick (or given) tier sequentially; prints one status line per property.
cd "$(dirname "$0")/.."
tier=${1:-quick}
ids=$(python3 -c "import json;print(' '.join(p['property_id'] for p in json.load(open('MANIFEST.json'))['checks']))")
rc=0
for id in $ids; do
  t0=$(date +%s)
  out=$(./bin/check $id $tier 2>&1); r=$?
  t1=$(date +%s)
  echo "$id rc=$r $((t1-t0))s $(echo "$out" | grep -E '^(VIOLATION|KNOWN-FINDING|INCONCLUSIVE|UNWOUND|VACUOUS|UNCONFIRMED)' | head -3 | tr '\n' ';')"
  [ $r -ne 0 ] && rc=1
done
exit $rc
