#!/bin/bash
# Runs a tier (default quick) of every claimed property, N lanes in parallel (default 1); one status line each.
cd "$(dirname "$0")/.."
tier=${1:-quick}; lanes=${2:-1}
mkdir -p /tmp/verif-runall
ids=$(python3 -c "import json;print(' '.join(p['property_id'] for p in json.load(open('MANIFEST.json'))['checks']))")
one() {
  id=$1; tier=$2; t0=$(date +%s)
  ./bin/check $id $tier > /tmp/verif-runall/$id.log 2>&1; rc=$?
  echo "$id rc=$rc $(( $(date +%s)-t0 ))s $(grep -E '^(VIOLATION|KNOWN-FINDING|INCONCLUSIVE|UNWOUND|VACUOUS|UNCONFIRMED)' /tmp/verif-runall/$id.log | cut -c1-120 | head -4 | tr '\n' ';')"
  return $rc
}
export -f one
echo $ids | tr ' ' '\n' | xargs -P $lanes -I{} bash -c "one {} $tier"
