#!/bin/bash
# usage: tools/keep_mutants.sh <id> <pkgs...> : confirm every /tmp/wt/out_<id>/m* and keep confirmed ones under /verif/seeded/<id>/
id="$1"; shift
for d in /tmp/wt/out_$id/m*; do
  [ -f "$d/patch.diff" ] || continue
  name=$(basename $d)
  res=$(/verif/tools/confirm_mutant.sh "$d" "$@" 2>&1 | tail -1)
  echo "$id/$name: $res"
  case "$res" in CONFIRMED*)
    mkdir -p /verif/seeded/$id/$name
    cp "$d/patch.diff" "$d/demo_test.go" /verif/seeded/$id/$name/
    python3 - "$d/meta.json" "/verif/seeded/$id/$name/meta.json" "$res" "$id" <<'PY'
import json,sys
try: m=json.load(open(sys.argv[1]))
except Exception as e: m={"summary":"(meta unreadable)"}
m["property"]=sys.argv[4]
m["confirmed_by_me"]=sys.argv[3]
json.dump(m,open(sys.argv[2],"w"),indent=1)
PY
  ;; esac
done
